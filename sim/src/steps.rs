//! The explicit vocabulary of a run: every step carries absolute arguments, so that any
//! subsequence of a trace is itself a legal history (the model gives a verdict for any
//! arguments in any state). Traces are what replay files contain.

use crate::elem::{Flavour, Lie};
use serde::{Deserialize, Serialize};

pub type Coord = (usize, usize);

/// A window (start, end) in (col,row) coordinates.
#[derive(Clone, Copy, Debug, PartialEq, Eq, Serialize, Deserialize)]
pub struct Win {
    pub start: Coord,
    pub end: Coord,
}

/// What the simulated caller does with a returned drain / by-value iterator:
/// `acts` is a sequence of 0 = next, 1 = next_back, 2 = len(), 3 = size_hint(),
/// 4 + 2k = nth(k), 5 + 2k = nth_back(k) (the skipped elements are consumed - and dropped - by the guard);
/// afterwards the guard is dropped, or leaked with `mem::forget` when `leak` is set.
#[derive(Clone, Debug, PartialEq, Eq, Serialize, Deserialize, Default)]
pub struct Script {
    pub acts: Vec<u8>,
    pub leak: bool,
}

#[derive(Clone, Copy, Debug, PartialEq, Eq, Serialize, Deserialize)]
pub enum SortVariant {
    RowOrd,
    UnstableRowOrd,
    ByRow,
    UnstableByRow,
    ByRowKey,
    UnstableByRowKey,
    ColOrd,
    ByCol,
    UnstableByCol,
    ByColKey,
    UnstableByColKey,
}

pub const ALL_SORTS: [SortVariant; 11] = [
    SortVariant::RowOrd,
    SortVariant::UnstableRowOrd,
    SortVariant::ByRow,
    SortVariant::UnstableByRow,
    SortVariant::ByRowKey,
    SortVariant::UnstableByRowKey,
    SortVariant::ColOrd,
    SortVariant::ByCol,
    SortVariant::UnstableByCol,
    SortVariant::ByColKey,
    SortVariant::UnstableByColKey,
];

impl SortVariant {
    pub fn by_row(self) -> bool {
        use SortVariant::*;
        matches!(self, RowOrd | UnstableRowOrd | ByRow | UnstableByRow | ByRowKey | UnstableByRowKey)
    }
    pub fn stable(self) -> bool {
        use SortVariant::*;
        matches!(self, RowOrd | ByRow | ByRowKey | ColOrd | ByCol | ByColKey)
    }
    pub fn natural(self) -> bool {
        use SortVariant::*;
        matches!(self, RowOrd | UnstableRowOrd | ColOrd)
    }
    pub fn keyed(self) -> bool {
        use SortVariant::*;
        matches!(self, ByRowKey | UnstableByRowKey | ByColKey | UnstableByColKey)
    }
}

/// `Copy`-bounded operations (only run with the `Cid` flavour).
#[derive(Clone, Debug, PartialEq, Eq, Serialize, Deserialize)]
pub enum CopyOp {
    FromSlice { len: usize },
    FromToodee { c: usize, r: usize },
    Within { src: (Coord, Coord), dest: Coord },
}

/// In-place operations available on owned arrays and on mutable views alike.
#[derive(Clone, Debug, PartialEq, Eq, Serialize, Deserialize)]
pub enum MutOp {
    Fill,
    Swap { a: Coord, b: Coord },
    SwapRows { r1: usize, r2: usize },
    SwapCols { c1: usize, c2: usize },
    RowPairSwap { r1: usize, r2: usize },
    CloneFromSlice { len: usize },
    CloneFromToodee { c: usize, r: usize },
    Translate { mc: usize, mr: usize },
    FlipRows,
    FlipCols,
    /// compare by `val % m` (descending when `desc`); `cmp_lawless` makes the comparator
    /// violate the total-order laws (it answers from a counter), which is caller misbehaviour
    /// in the sense of C11.
    Sort { variant: SortVariant, idx: usize, m: u32, desc: bool, lawless: bool },
    SetCoord { c: usize, r: usize },
    SetRowCol { r: usize, c: usize },
    RowsMutSet { r: usize, c: usize },
    ColMutSet { c: usize, i: usize },
    CellsMutSet { i: usize },
    /// `*get_unchecked_mut((c, r)) = v` - only executed for in-range coordinates
    UncheckedSet { c: usize, r: usize },
    /// `get_unchecked_row_mut(r)[c] = v` - only executed for an in-range row
    UncheckedRowSet { r: usize, c: usize },
}

/// Which borrow-carrying value a `Leak` step obtains, partly consumes and forgets.
#[derive(Clone, Copy, Debug, PartialEq, Eq, Serialize, Deserialize)]
pub enum GuardKind {
    Rows,
    RowsMut,
    Col,
    ColMut,
    Cells,
    CellsMut,
    View,
    ViewMut,
}

#[derive(Clone, Debug, PartialEq, Eq, Serialize, Deserialize)]
pub enum Op {
    // ---- constructors and conversions that replace the current array
    New { c: usize, r: usize },
    Init { c: usize, r: usize },
    FromVec { c: usize, r: usize, len: usize, extra_cap: usize },
    FromBox { c: usize, r: usize, len: usize },
    WithCapacity { n: usize },
    DefaultNew,
    CloneSelf,
    /// `arr.clone_from(&src)` with a freshly built source of shape (c, r)
    CloneFrom { c: usize, r: usize, extra_cap: usize },
    /// `TooDee::from(view)`; with `via_into` (and `mutable`) the mutable view is first converted
    /// with `TooDeeView::from(view_mut)`
    FromView {
        win: Win,
        mutable: bool,
        #[serde(default)]
        via_into: bool,
        /// a window of the window: the array is built from `view(win).view(inner)` (or the
        /// `view_mut` chain)
        #[serde(default)]
        inner: Option<Win>,
    },
    // ---- structural edits
    InsertRow { idx: usize, len: usize, lie: Lie },
    PushRow { len: usize, lie: Lie },
    InsertCol { idx: usize, len: usize, lie: Lie },
    PushCol { len: usize, lie: Lie },
    RemoveRow { idx: usize, script: Script },
    PopRow { script: Script },
    RemoveCol { idx: usize, script: Script },
    PopCol { script: Script },
    Clear,
    SwapDimensions,
    Reserve { n: usize },
    ReserveExact { n: usize },
    ShrinkToFit,
    // ---- writes through the owned array only
    DataMutSet { i: usize },
    AsMutSet { i: usize },
    // ---- in-place operations
    Mut(MutOp),
    Copy(CopyOp),
    /// the same in-place operation issued through `view_mut(win)`
    ViewMut { win: Win, op: MutOp },
    // ---- leak a borrow-carrying value (C12)
    Leak { kind: GuardKind, arg: usize, win: Win, front: usize, back: usize },
    // ---- read-only probes (clone ==, Hash, Debug)
    Probe,
    // ---- terminal conversions: the array is consumed and replaced by `TooDee::default()`
    IntoVec,
    IntoBox,
    IntoIter { script: Script },
    DropArr,
}

impl Op {
    pub fn name(&self) -> &'static str {
        match self {
            Op::New { .. } => "new",
            Op::Init { .. } => "init",
            Op::FromVec { .. } => "from_vec",
            Op::FromBox { .. } => "from_box",
            Op::WithCapacity { .. } => "with_capacity",
            Op::DefaultNew => "default",
            Op::CloneSelf => "clone",
            Op::CloneFrom { .. } => "clone_from",
            Op::FromView { .. } => "from_view",
            Op::InsertRow { .. } => "insert_row",
            Op::PushRow { .. } => "push_row",
            Op::InsertCol { .. } => "insert_col",
            Op::PushCol { .. } => "push_col",
            Op::RemoveRow { .. } => "remove_row",
            Op::PopRow { .. } => "pop_row",
            Op::RemoveCol { .. } => "remove_col",
            Op::PopCol { .. } => "pop_col",
            Op::Clear => "clear",
            Op::SwapDimensions => "swap_dimensions",
            Op::Reserve { .. } => "reserve",
            Op::ReserveExact { .. } => "reserve_exact",
            Op::ShrinkToFit => "shrink_to_fit",
            Op::DataMutSet { .. } => "data_mut_set",
            Op::AsMutSet { .. } => "as_mut_set",
            Op::Mut(m) => m.name(),
            Op::Copy(c) => c.name(),
            Op::ViewMut { op, .. } => op.view_name(),
            Op::Leak { kind, .. } => match kind {
                GuardKind::Rows => "leak_rows",
                GuardKind::RowsMut => "leak_rows_mut",
                GuardKind::Col => "leak_col",
                GuardKind::ColMut => "leak_col_mut",
                GuardKind::Cells => "leak_cells",
                GuardKind::CellsMut => "leak_cells_mut",
                GuardKind::View => "leak_view",
                GuardKind::ViewMut => "leak_view_mut",
            },
            Op::Probe => "probe",
            Op::IntoVec => "into_vec",
            Op::IntoBox => "into_box",
            Op::IntoIter { .. } => "into_iter",
            Op::DropArr => "drop",
        }
    }

    pub fn is_insert(&self) -> bool {
        matches!(self, Op::InsertRow { .. } | Op::PushRow { .. } | Op::InsertCol { .. } | Op::PushCol { .. })
    }

    pub fn is_remove(&self) -> bool {
        matches!(self, Op::RemoveRow { .. } | Op::PopRow { .. } | Op::RemoveCol { .. } | Op::PopCol { .. })
    }

    /// Does this step leak something (C12's fault)?
    pub fn leaks(&self) -> bool {
        match self {
            Op::RemoveRow { script, .. } | Op::PopRow { script } | Op::RemoveCol { script, .. } | Op::PopCol { script } | Op::IntoIter { script } => script.leak,
            Op::Leak { .. } => true,
            _ => false,
        }
    }

    pub fn lie(&self) -> Lie {
        match self {
            Op::InsertRow { lie, .. } | Op::PushRow { lie, .. } | Op::InsertCol { lie, .. } | Op::PushCol { lie, .. } => *lie,
            _ => Lie::Honest,
        }
    }
}

impl MutOp {
    pub fn name(&self) -> &'static str {
        match self {
            MutOp::Fill => "fill",
            MutOp::Swap { .. } => "swap",
            MutOp::SwapRows { .. } => "swap_rows",
            MutOp::SwapCols { .. } => "swap_cols",
            MutOp::RowPairSwap { .. } => "row_pair_mut",
            MutOp::CloneFromSlice { .. } => "clone_from_slice",
            MutOp::CloneFromToodee { .. } => "clone_from_toodee",
            MutOp::Translate { .. } => "translate_with_wrap",
            MutOp::FlipRows => "flip_rows",
            MutOp::FlipCols => "flip_cols",
            MutOp::Sort { variant, .. } => match variant {
                SortVariant::RowOrd => "sort_row_ord",
                SortVariant::UnstableRowOrd => "sort_unstable_row_ord",
                SortVariant::ByRow => "sort_by_row",
                SortVariant::UnstableByRow => "sort_unstable_by_row",
                SortVariant::ByRowKey => "sort_by_row_key",
                SortVariant::UnstableByRowKey => "sort_unstable_by_row_key",
                SortVariant::ColOrd => "sort_col_ord",
                SortVariant::ByCol => "sort_by_col",
                SortVariant::UnstableByCol => "sort_unstable_by_col",
                SortVariant::ByColKey => "sort_by_col_key",
                SortVariant::UnstableByColKey => "sort_unstable_by_col_key",
            },
            MutOp::SetCoord { .. } => "set_coord",
            MutOp::SetRowCol { .. } => "set_row_col",
            MutOp::RowsMutSet { .. } => "rows_mut_set",
            MutOp::ColMutSet { .. } => "col_mut_set",
            MutOp::CellsMutSet { .. } => "cells_mut_set",
            MutOp::UncheckedSet { .. } => "get_unchecked_mut_set",
            MutOp::UncheckedRowSet { .. } => "get_unchecked_row_mut_set",
        }
    }
    pub fn view_name(&self) -> &'static str {
        match self {
            MutOp::Fill => "view.fill",
            MutOp::Sort { .. } => "view.sort",
            MutOp::CloneFromSlice { .. } => "view.clone_from_slice",
            MutOp::CloneFromToodee { .. } => "view.clone_from_toodee",
            MutOp::Translate { .. } => "view.translate_with_wrap",
            _ => "view.op",
        }
    }
}

impl CopyOp {
    pub fn name(&self) -> &'static str {
        match self {
            CopyOp::FromSlice { .. } => "copy_from_slice",
            CopyOp::FromToodee { .. } => "copy_from_toodee",
            CopyOp::Within { .. } => "copy_within",
        }
    }
}

/// One step of a history: an operation and at most one armed unwind fault
/// (kind index into `elem::KIND_NAMES`, k = the k-th call of that kind during the operation).
#[derive(Clone, Debug, PartialEq, Eq, Serialize, Deserialize)]
pub struct Step {
    pub op: Op,
    #[serde(default, skip_serializing_if = "Option::is_none")]
    pub fault: Option<(usize, u32)>,
}

/// A complete, explicit, replayable run of the array engine.
#[derive(Clone, Debug, PartialEq, Serialize, Deserialize)]
pub struct ArrayTrace {
    pub flavour: Flavour,
    pub alloc_mode: u8,
    pub steps: Vec<Step>,
}
