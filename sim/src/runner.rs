//! Drives the array engine: generated runs, explicit (replayed) runs and crash-point sweeps.

use crate::alloc;
use crate::array_engine::*;
use crate::elem::*;
use crate::gen::*;
use crate::rng::{mix, Rng};
use crate::steps::*;
use std::io::Write;

pub struct RunOutcome {
    pub trace: ArrayTrace,
    pub viol: Option<Viol>,
    pub stats: RunStats,
    pub fault_runs: bool,
}

pub type Journal<'a> = Option<&'a mut std::fs::File>;

fn journal_line(j: &mut Journal<'_>, line: &str) {
    if let Some(f) = j.as_mut() {
        let _ = f.write_all(line.as_bytes());
        let _ = f.write_all(b"\n");
    }
}

fn begin_run(flavour: Flavour, alloc_mode: u8, j: &mut Journal<'_>) {
    ledger_reset();
    alloc::set_mode(alloc_mode);
    let _ = alloc::take_violation();
    journal_line(j, &format!("{{\"header\":{{\"flavour\":\"{:?}\",\"alloc_mode\":{}}}}}", flavour, alloc_mode));
}

fn cap_is_exact<E: Elem>(e: &Engine<E>) -> bool {
    let v: &Vec<E> = e.arr.as_ref();
    v.capacity() == v.len()
}

/// Execute explicit steps. Returns the engine unless a violation stopped the run.
fn exec_steps<E: Elem>(eng: &mut Engine<E>, steps: &[Step], done: &mut Vec<Step>, j: &mut Journal<'_>) -> Option<Viol> {
    for st in steps {
        journal_line(j, &serde_json::to_string(st).unwrap());
        done.push(st.clone());
        if let Err(v) = eng.step(st) {
            return Some(v);
        }
    }
    None
}

fn gen_and_exec<E: Elem>(eng: &mut Engine<E>, rng: &mut Rng, cfg: &ArrayCfg, n: usize, done: &mut Vec<Step>, j: &mut Journal<'_>) -> Option<Viol> {
    for _ in 0..n {
        let st = gen_step(rng, &eng.model, cfg, cap_is_exact(eng));
        journal_line(j, &serde_json::to_string(&st).unwrap());
        done.push(st.clone());
        if let Err(v) = eng.step(&st) {
            return Some(v);
        }
    }
    None
}

fn finish<E: Elem>(eng: Engine<E>, done: Vec<Step>, cfg_flavour: Flavour, alloc_mode: u8, early: Option<Viol>) -> RunOutcome {
    let n = done.len();
    let trace = ArrayTrace { flavour: cfg_flavour, alloc_mode, steps: done };
    match early {
        Some(v) => {
            // the array may be broken: never touch it again (leak it)
            let stats = eng.stats.clone();
            std::mem::forget(eng);
            RunOutcome { trace, viol: Some(v), stats, fault_runs: false }
        }
        None => {
            let (stats, v) = eng.finish(n);
            RunOutcome { trace, viol: v, stats, fault_runs: false }
        }
    }
}

pub fn run_generated<E: Elem>(rng: &mut Rng, cfg: &ArrayCfg, mut j: Journal<'_>) -> RunOutcome {
    begin_run(cfg.flavour, cfg.alloc_mode, &mut j);
    let mut eng: Engine<E> = Engine::new();
    let mut done = Vec::new();
    let v = gen_and_exec(&mut eng, rng, cfg, cfg.n_steps, &mut done, &mut j);
    let mut out = finish(eng, done, cfg.flavour, cfg.alloc_mode, v);
    out.fault_runs = cfg.fault_pm > 0;
    out
}

pub fn run_explicit<E: Elem>(trace: &ArrayTrace, mut j: Journal<'_>) -> RunOutcome {
    begin_run(trace.flavour, trace.alloc_mode, &mut j);
    let mut eng: Engine<E> = Engine::new();
    let mut done = Vec::new();
    let v = exec_steps(&mut eng, &trace.steps, &mut done, &mut j);
    finish(eng, done, trace.flavour, trace.alloc_mode, v)
}

/// A run over giant zero-sized arrays: `steps` = explicit steps to execute first, then `extra`
/// generated ones.
pub fn run_giant(explicit: &[Step], rng: Option<&mut Rng>, extra: usize, mut j: Journal<'_>) -> RunOutcome {
    journal_line(&mut j, "{\"header\":{\"flavour\":\"Giant\",\"alloc_mode\":0}}");
    let mut g = crate::giant::Giant::new();
    let mut done: Vec<Step> = Vec::new();
    let mut viol = None;
    for st in explicit {
        journal_line(&mut j, &serde_json::to_string(st).unwrap());
        done.push(st.clone());
        if let Err(v) = g.step(st) {
            viol = Some(v);
            break;
        }
    }
    if viol.is_none() {
        if let Some(rng) = rng {
            let first = crate::giant::gen_first(rng);
            let mut next = Some(first);
            for _ in 0..extra {
                let st = match next.take() {
                    Some(s) => s,
                    None => {
                        let (c, r) = crate::giant::dims(&g);
                        crate::giant::gen_step(rng, c, r)
                    }
                };
                journal_line(&mut j, &serde_json::to_string(&st).unwrap());
                done.push(st.clone());
                if let Err(v) = g.step(&st) {
                    viol = Some(v);
                    break;
                }
            }
        }
    }
    let stats = std::mem::take(&mut g.stats);
    RunOutcome { trace: ArrayTrace { flavour: Flavour::Giant, alloc_mode: 0, steps: done }, viol, stats, fault_runs: false }
}

pub fn run_explicit_dyn(trace: &ArrayTrace, j: Journal<'_>) -> RunOutcome {
    if trace.flavour == Flavour::Giant {
        return run_giant(&trace.steps, None, 0, j);
    }
    match trace.flavour {
        Flavour::Tok => run_explicit::<Tok>(trace, j),
        Flavour::Cid => run_explicit::<Cid>(trace, j),
        Flavour::ZTok => run_explicit::<ZTok>(trace, j),
        Flavour::Mov => run_explicit::<Mov>(trace, j),
        Flavour::Fat => run_explicit::<Fat>(trace, j),
        Flavour::Giant => unreachable!(),
    }
}

/// Crash-point sweep (C11) / consumption-split sweep (C12):
/// a seeded prefix, one chosen operation, and then *every* fault point of that operation —
/// for C11 every k-th call of every kind of caller code the operation makes (counted by a dry
/// run), for C12 every (front, back) consumption split of the returned drain — each followed by
/// a generated suffix and the end-of-run accounting.
pub fn run_sweep<E: Elem>(seed: u64, cfg: &ArrayCfg, mut j: Journal<'_>, only_variant: Option<usize>) -> Vec<RunOutcome> {
    let mut rng = Rng::new(seed);
    let mut quiet = cfg.clone();
    quiet.fault_pm = 0;
    quiet.lies = false;
    quiet.leaks = false;
    // 1. prefix (generated once, executed explicitly afterwards)
    let prefix_len = rng.below(cfg.n_steps.min(24) + 1);
    let mut outs = Vec::new();
    begin_run(cfg.flavour, cfg.alloc_mode, &mut j);
    let mut eng: Engine<E> = Engine::new();
    let mut prefix = Vec::new();
    if let Some(v) = gen_and_exec(&mut eng, &mut rng, &quiet, prefix_len, &mut prefix, &mut j) {
        // a violation in the fault-free prefix: report it as its own (untainted) outcome
        outs.push(finish(eng, prefix, cfg.flavour, cfg.alloc_mode, Some(v)));
        return outs;
    }
    // 2. the operation under the sweep
    let split_sweep = matches!(cfg.profile, Profile::C12 | Profile::C07);
    let variants: Vec<Step> = if cfg.profile == Profile::C06 {
        // every insertion index 0..=dim+1 x every supplied length 0..=dim+1, rows or columns
        let (c, r) = eng.model.size();
        let rows_not_cols = rng.chance(1, 2);
        let (dim, other) = if rows_not_cols { (r, c) } else { (c, r) };
        let mut v = Vec::new();
        for idx in 0..=dim + 1 {
            for len in 0..=other + 1 {
                let op = if rows_not_cols { Op::InsertRow { idx, len, lie: Lie::Honest } } else { Op::InsertCol { idx, len, lie: Lie::Honest } };
                v.push(Step { op, fault: None });
            }
        }
        if v.len() > 150 {
            let k = (v.len() + 149) / 150;
            v = v.into_iter().step_by(k).collect();
        }
        v
    } else if split_sweep {
        let (c, r) = eng.model.size();
        let which = if cfg.profile == Profile::C07 { rng.below(4) } else { rng.below(5) };
        let line = match which {
            0 | 1 => c,
            2 | 3 => r,
            _ => c * r,
        };
        let idx_r = if r == 0 { 0 } else { rng.below(r) };
        let idx_c = if c == 0 { 0 } else { rng.below(c) };
        let mut v = Vec::new();
        for f in 0..=line {
            for b in 0..=(line - f) {
                // alternate the two ends (starting end depends on parity), then the rest
                let mut acts: Vec<u8> = Vec::new();
                let (mut ff, mut bb) = (f, b);
                let mut front_turn = (f + b) % 2 == 0;
                while ff + bb > 0 {
                    if (front_turn && ff > 0) || bb == 0 {
                        acts.push(0);
                        ff -= 1;
                    } else {
                        acts.push(1);
                        bb -= 1;
                    }
                    front_turn = !front_turn;
                }
                // C12 leaks the guard after the split, C07 drops it
                let script = Script { acts, leak: cfg.profile == Profile::C12 };
                let op = match which {
                    0 => Op::RemoveRow { idx: idx_r, script },
                    1 => Op::PopRow { script },
                    2 => Op::RemoveCol { idx: idx_c, script },
                    3 => Op::PopCol { script },
                    _ => Op::IntoIter { script },
                };
                v.push(Step { op, fault: None });
            }
        }
        if v.len() > 120 {
            // long lines (large shapes): an evenly spaced sample of the splits
            let k = (v.len() + 119) / 120;
            v = v.into_iter().step_by(k).collect();
        }
        v
    } else {
        let op = gen_sweep_op(&mut rng, &eng.model, &quiet);
        // dry run on the real state to count the calls per kind
        let calls_before = eng.stats.calls;
        let mut dry_done = prefix.clone();
        let dv = exec_steps(&mut eng, &[Step { op: op.clone(), fault: None }], &mut dry_done, &mut j);
        if let Some(v) = dv {
            outs.push(finish(eng, dry_done, cfg.flavour, cfg.alloc_mode, Some(v)));
            return outs;
        }
        let mut v = Vec::new();
        for kind in sweep_kinds(&op, cfg.flavour) {
            let n = (eng.stats.calls[kind] - calls_before[kind]) as u32;
            // k = 0..n : k == n is "one past the last call" (the fault must then not fire)
            for k in 0..=n.min(200) {
                v.push(Step { op: op.clone(), fault: Some((kind, k)) });
            }
        }
        v
    };
    let (st0, v0) = eng.finish(prefix.len());
    let _ = st0;
    if let Some(v) = v0 {
        outs.push(RunOutcome { trace: ArrayTrace { flavour: cfg.flavour, alloc_mode: cfg.alloc_mode, steps: prefix }, viol: Some(v), stats: RunStats::default(), fault_runs: false });
        return outs;
    }
    // 3. one execution per fault point
    let suffix_len = rng.range(2, 8);
    // (the interpreter is ~1000x slower: under Miri a sweep keeps an evenly spaced sample of its points)
    let variants: Vec<Step> = if cfg!(miri) && variants.len() > 8 {
        let k = (variants.len() + 7) / 8;
        variants.into_iter().step_by(k).collect()
    } else {
        variants
    };
    for (vi, fs) in variants.iter().enumerate() {
        if let Some(only) = only_variant {
            if only != vi {
                continue;
            }
        }
        // a sign of life per variant: a sweep can take minutes under the Miri interpreter
        crate::heartbeat();
        journal_line(&mut j, &format!("{{\"variant\":{}}}", vi));
        begin_run(cfg.flavour, cfg.alloc_mode, &mut j);
        let mut eng: Engine<E> = Engine::new();
        let mut done = Vec::new();
        let mut v = exec_steps(&mut eng, &prefix, &mut done, &mut j);
        if v.is_none() {
            v = exec_steps(&mut eng, std::slice::from_ref(fs), &mut done, &mut j);
        }
        if v.is_none() {
            let mut srng = Rng::new(mix(&[seed, 0x5FF1, vi as u64]));
            v = gen_and_exec(&mut eng, &mut srng, &quiet, suffix_len, &mut done, &mut j);
        }
        let mut o = finish(eng, done, cfg.flavour, cfg.alloc_mode, v);
        o.fault_runs = !matches!(cfg.profile, Profile::C07 | Profile::C06);
        let stop = o.viol.is_some();
        outs.push(o);
        if stop {
            // the heap of this process may be damaged: do not run further variants here
            break;
        }
    }
    outs
}
