//! The serde engine (C18, C19).
//!
//! serde_json is real; the transports around it are simulated: `SimWriter` (short writes, write
//! error at byte k), `SimReader` (chunking, `Interrupted` between chunks, hard error / EOF at
//! byte k) and `SimMap`, a `MapAccess` over an explicit event list that delivers keys as
//! borrowed str / transient str / owned String / bytes and can drop, duplicate, reorder,
//! corrupt or fail events the way a transport damages messages.

use crate::array_engine::IN_GUARDED;
use crate::rng::Rng;
use crate::steps::Win;
use serde::de::{DeserializeOwned, DeserializeSeed, Deserializer, Error as DeError, MapAccess, Visitor};
use serde::{Deserialize, Serialize};
use serde_json::Value;
use std::collections::BTreeMap;
use std::io::{self, Read, Write};
use std::panic::{catch_unwind, AssertUnwindSafe};
use toodee::{TooDee, TooDeeOps, TooDeeOpsMut};

#[derive(Clone, Copy, Debug, PartialEq, Eq, Serialize, Deserialize)]
pub enum ElemTy {
    U32,
    I64,
    Str,
    OptU32,
    VecU32,
    /// an array whose cells are arrays (`TooDee<TooDee<u32>>`): the visitor runs re-entrantly
    Nested,
}

#[derive(Clone, Copy, Debug, PartialEq, Eq, Serialize, Deserialize)]
pub enum Source {
    Owned,
    View(Win),
    ViewMut(Win),
}

#[derive(Clone, Debug, PartialEq, Eq, Serialize, Deserialize)]
pub enum SerKind {
    /// a simulated length-prefixed format: the announced lengths of sequences and structs must
    /// match what is then written (JSON ignores them)
    LenChecked,
    ToString,
    ToVec,
    /// `max_chunk`: the writer accepts at most this many bytes per call (short writes);
    /// `eintr_every`: every n-th call returns Interrupted first; `fail_at`: hard error at byte k
    ToWriter { max_chunk: usize, eintr_every: usize, fail_at: Option<usize> },
    ToValue,
}

#[derive(Clone, Copy, Debug, PartialEq, Eq, Serialize, Deserialize)]
pub enum KeyRepr {
    Borrowed,
    Transient,
    Owned,
    Bytes,
    /// the key arrives as an integer (formats with packed / indexed field names); `off` is added
    /// to the field's index (num_cols 0, num_rows 1, data 2, anything else 3)
    Index { off: u8 },
}

#[derive(Clone, Copy, Debug, PartialEq, Eq, Serialize, Deserialize)]
pub enum ReadFault {
    Error,
    Eof,
}

#[derive(Clone, Debug, PartialEq, Eq, Serialize, Deserialize)]
pub enum DeKind {
    FromStr,
    FromSlice,
    FromReader { max_chunk: usize, eintr_every: usize, fault: Option<(ReadFault, usize)> },
    FromValue,
    SimMap {
        keys: Vec<KeyRepr>,
        error_at: Option<usize>,
        /// lying size hints: 0 none, 1 the data sequence claims usize::MAX elements, 2 it claims
        /// 2^40, 3 the map itself claims usize::MAX entries
        #[serde(default)]
        hint: u8,
    },
    /// a simulated positional, not self-describing format: the field values in the order the
    /// serialiser wrote them, delivered through `visit_seq`; `human` is what `is_human_readable()` says
    Positional { human: bool },
}

/// A dimension value a damaged document may state.
#[derive(Clone, Debug, PartialEq, Eq, Serialize, Deserialize)]
pub enum DimVal {
    Zero,
    One,
    Small(usize),
    ProductPlus1,
    ProductMinus1,
    Pow32,
    Pow63,
    MaxU64,
    Pow64,
    MinusOne,
    Fraction,
    IntegralFloat,
    Str,
    Null,
    True,
    Arr,
    Obj,
}

/// One mutation of the event stream (C19).
#[derive(Clone, Debug, PartialEq, Eq, Serialize, Deserialize)]
pub enum DocMut {
    Drop { field: u8 },
    Dup { field: u8, different: bool, at_end: bool },
    Reorder { rot: usize },
    Unknown { pos: usize, key: u8 },
    SetDim { field: u8, val: DimVal },
    /// make both dimensions restate the data length as (c, r)
    Reshape { c: usize, r: usize },
    DataLen { delta: i8 },
    DataNonArray { kind: u8 },
    ElemSwap { pos: usize, kind: u8 },
    Nest,
    /// an additional occurrence of a dimension field with the given value, before or after the
    /// original one (e.g. `"num_cols": null, "num_cols": 3`)
    InsertDim { field: u8, val: DimVal, before: bool },
    /// the data array split into two `data` events at position `at` (two partial messages)
    SplitData { at: usize },
    /// the document delivered positionally, as a top-level JSON array of the field values in the
    /// given rotation (what a format without field names, or a derive-style `visit_seq`, would see)
    AsSeq { rot: usize },
}

#[derive(Clone, Debug, PartialEq, Eq, Serialize, Deserialize)]
pub enum ByteMut {
    Flip { pos: usize, bit: u8 },
    Truncate { len: usize },
    Splice { pos: usize, byte: u8 },
    Delete { pos: usize },
}

#[derive(Clone, Debug, PartialEq, Eq, Serialize, Deserialize)]
pub struct SerdeTrace {
    pub elem: ElemTy,
    pub cols: usize,
    pub rows: usize,
    /// how the array is built: 0 from_vec, 1 with_capacity + push_row, 2 from_vec + reserve, 3 from_vec(rows, cols) + swap_dimensions
    pub build: u8,
    pub salt: u32,
    pub source: Source,
    pub ser: SerKind,
    pub de: DeKind,
    pub muts: Vec<DocMut>,
    pub byte_muts: Vec<ByteMut>,
}

#[derive(Clone, Debug, Serialize, Deserialize)]
pub struct SViol {
    pub kind: String,
    pub detail: String,
    pub op: String,
}

#[derive(Default, Clone, Debug)]
pub struct SStats {
    pub transport_faults: BTreeMap<&'static str, u64>,
    pub doc_mutations: BTreeMap<&'static str, u64>,
    pub outcomes: BTreeMap<&'static str, u64>,
    pub pairs: BTreeMap<String, u64>,
    pub elems: BTreeMap<&'static str, u64>,
    pub cells: u64,
    pub skipped: u64,
}

impl SStats {
    fn tf(&mut self, k: &'static str) {
        *self.transport_faults.entry(k).or_insert(0) += 1;
    }
    fn dm(&mut self, k: &'static str) {
        *self.doc_mutations.entry(k).or_insert(0) += 1;
    }
    fn oc(&mut self, k: &'static str) {
        *self.outcomes.entry(k).or_insert(0) += 1;
    }
}

// ---------------------------------------------------------------------------------------------
// cell types

pub trait CellTy: Serialize + DeserializeOwned + PartialEq + std::fmt::Debug + Clone {
    fn gen(i: usize, salt: u32) -> Self;
}

impl CellTy for u32 {
    fn gen(i: usize, salt: u32) -> u32 {
        match (i as u32).wrapping_add(salt) % 7 {
            0 => u32::MAX,
            1 => 0,
            _ => (i as u32).wrapping_mul(2654435761).wrapping_add(salt) % 100_000,
        }
    }
}
impl CellTy for i64 {
    fn gen(i: usize, salt: u32) -> i64 {
        match (i as u32).wrapping_add(salt) % 6 {
            0 => i64::MIN,
            1 => i64::MAX,
            2 => -1,
            _ => (i as i64 * 7919 + salt as i64) * if i % 2 == 0 { -1 } else { 1 },
        }
    }
}
const STRS: [&str; 12] = ["", "a", "\"q\"", "\\", "\n\t\r", "é", "日本語", "\u{1F600}", "num_cols", "{\"data\":[]}", "\u{0}\u{1f}", "</script>\u{2028}"];
impl CellTy for String {
    fn gen(i: usize, salt: u32) -> String {
        let k = (i + salt as usize) % (STRS.len() + 2);
        if k < STRS.len() { STRS[k].to_string() } else { format!("s{}-{}", i, salt) }
    }
}
impl CellTy for Option<u32> {
    fn gen(i: usize, salt: u32) -> Option<u32> {
        if (i + salt as usize) % 3 == 0 { None } else { Some(u32::gen(i, salt)) }
    }
}
impl CellTy for Vec<u32> {
    fn gen(i: usize, salt: u32) -> Vec<u32> {
        (0..(i + salt as usize) % 4).map(|j| u32::gen(i + j, salt)).collect()
    }
}

impl CellTy for TooDee<u32> {
    fn gen(i: usize, salt: u32) -> TooDee<u32> {
        let (c, r) = match (i + salt as usize) % 4 {
            0 => (0, 0),
            1 => (1, 2),
            2 => (3, 1),
            _ => (2, 2),
        };
        TooDee::from_vec(c, r, (0..c * r).map(|j| u32::gen(i + j, salt)).collect())
    }
}

// ---------------------------------------------------------------------------------------------
// simulated transports

struct SimWriter {
    out: Vec<u8>,
    max_chunk: usize,
    eintr_every: usize,
    fail_at: Option<usize>,
    calls: usize,
    pub short_writes: u64,
    pub eintrs: u64,
    pub failed: bool,
}

impl Write for SimWriter {
    fn write(&mut self, buf: &[u8]) -> io::Result<usize> {
        self.calls += 1;
        if self.eintr_every > 0 && self.calls % self.eintr_every == 0 {
            self.eintrs += 1;
            return Err(io::Error::new(io::ErrorKind::Interrupted, "simulated EINTR"));
        }
        if let Some(k) = self.fail_at {
            if self.out.len() + buf.len().min(self.max_chunk.max(1)) > k {
                self.failed = true;
                return Err(io::Error::new(io::ErrorKind::Other, "simulated write error"));
            }
        }
        let n = buf.len().min(self.max_chunk.max(1));
        if n < buf.len() {
            self.short_writes += 1;
        }
        self.out.extend_from_slice(&buf[..n]);
        Ok(n)
    }
    fn flush(&mut self) -> io::Result<()> {
        Ok(())
    }
}

struct SimReader<'a> {
    data: &'a [u8],
    pos: usize,
    max_chunk: usize,
    eintr_every: usize,
    fault: Option<(ReadFault, usize)>,
    calls: usize,
    pub eintrs: u64,
    pub fault_fired: bool,
}

impl Read for SimReader<'_> {
    fn read(&mut self, buf: &mut [u8]) -> io::Result<usize> {
        self.calls += 1;
        if self.eintr_every > 0 && self.calls % self.eintr_every == 0 {
            self.eintrs += 1;
            return Err(io::Error::new(io::ErrorKind::Interrupted, "simulated EINTR"));
        }
        let mut limit = self.data.len();
        if let Some((kind, k)) = self.fault {
            // an EOF at or beyond the real end of the data is no fault at all
            let is_fault = kind == ReadFault::Error || k < self.data.len();
            if self.pos >= k && is_fault {
                self.fault_fired = true;
                return match kind {
                    ReadFault::Error => Err(io::Error::new(io::ErrorKind::Other, "simulated read error")),
                    ReadFault::Eof => Ok(0),
                };
            }
            limit = limit.min(k);
        }
        let n = buf.len().min(self.max_chunk.max(1)).min(limit - self.pos);
        buf[..n].copy_from_slice(&self.data[self.pos..self.pos + n]);
        self.pos += n;
        Ok(n)
    }
}

/// A value of the event stream: a JSON value, or raw JSON text for literals that `Value` cannot
/// hold exactly (2^64, 5.0 stays 5.0).
#[derive(Clone, Debug, PartialEq)]
pub enum Val {
    Json(Value),
    Raw(String),
}

impl Val {
    fn text(&self) -> String {
        match self {
            Val::Json(v) => serde_json::to_string(v).unwrap(),
            Val::Raw(s) => s.clone(),
        }
    }
    fn value(&self) -> Value {
        match self {
            Val::Json(v) => v.clone(),
            Val::Raw(s) => serde_json::from_str(s).unwrap_or(Value::Null),
        }
    }
}

#[derive(Clone, Debug)]
pub struct Event {
    pub key: String,
    pub val: Val,
}

fn render(events: &[Event], nest: bool) -> String {
    let mut s = String::from("{");
    for (i, e) in events.iter().enumerate() {
        if i > 0 {
            s.push(',');
        }
        s.push_str(&serde_json::to_string(&e.key).unwrap());
        s.push(':');
        s.push_str(&e.val.text());
    }
    s.push('}');
    if nest { format!("{{\"toodee\":{}}}", s) } else { s }
}

struct KeyDe<'de> {
    key: &'de str,
    repr: KeyRepr,
}

impl<'de> Deserializer<'de> for KeyDe<'de> {
    type Error = serde_json::Error;
    fn deserialize_any<V: Visitor<'de>>(self, v: V) -> Result<V::Value, Self::Error> {
        match self.repr {
            KeyRepr::Borrowed => v.visit_borrowed_str(self.key),
            KeyRepr::Transient => {
                let tmp = self.key.to_string();
                v.visit_str(&tmp)
            }
            KeyRepr::Owned => v.visit_string(self.key.to_string()),
            KeyRepr::Bytes => {
                let tmp = self.key.as_bytes().to_vec();
                v.visit_bytes(&tmp)
            }
            KeyRepr::Index { off } => {
                let idx = FIELDS.iter().position(|f| *f == self.key).unwrap_or(3) as u64;
                v.visit_u64(idx + off as u64)
            }
        }
    }
    serde::forward_to_deserialize_any! {
        bool i8 i16 i32 i64 i128 u8 u16 u32 u64 u128 f32 f64 char str string bytes byte_buf option unit
        unit_struct newtype_struct seq tuple tuple_struct map struct enum identifier ignored_any
    }
}

struct SimMap<'de> {
    events: &'de [Event],
    keys: &'de [KeyRepr],
    pos: usize,
    error_at: Option<usize>,
    delivered: usize,
    hint: u8,
    pub error_fired: &'de std::cell::Cell<bool>,
}

/// A value whose sequences may lie about their length (`SeqAccess::size_hint`).
struct HintedValue {
    v: Value,
    seq_hint: Option<usize>,
}

struct HintedSeq {
    it: std::vec::IntoIter<Value>,
    hint: Option<usize>,
}

impl<'de> serde::de::SeqAccess<'de> for HintedSeq {
    type Error = serde_json::Error;
    fn next_element_seed<S: DeserializeSeed<'de>>(&mut self, seed: S) -> Result<Option<S::Value>, Self::Error> {
        match self.it.next() {
            Some(v) => seed.deserialize(v).map(Some),
            None => Ok(None),
        }
    }
    fn size_hint(&self) -> Option<usize> {
        self.hint
    }
}

impl<'de> Deserializer<'de> for HintedValue {
    type Error = serde_json::Error;
    fn deserialize_any<V: Visitor<'de>>(self, vis: V) -> Result<V::Value, Self::Error> {
        match (self.v, self.seq_hint) {
            (Value::Array(a), Some(h)) => vis.visit_seq(HintedSeq { it: a.into_iter(), hint: Some(h) }),
            (other, _) => other.deserialize_any(vis),
        }
    }
    serde::forward_to_deserialize_any! {
        bool i8 i16 i32 i64 i128 u8 u16 u32 u64 u128 f32 f64 char str string bytes byte_buf option unit
        unit_struct newtype_struct seq tuple tuple_struct map struct enum identifier ignored_any
    }
}

/// The positional deserialiser: only the struct / tuple / seq entry points work.
struct SimSeqDe {
    vals: Vec<Value>,
    human: bool,
}

impl<'de> Deserializer<'de> for SimSeqDe {
    type Error = serde_json::Error;
    fn deserialize_any<V: Visitor<'de>>(self, _vis: V) -> Result<V::Value, Self::Error> {
        Err(serde_json::Error::custom("positional format: not self-describing"))
    }
    fn deserialize_struct<V: Visitor<'de>>(self, _name: &'static str, _fields: &'static [&'static str], vis: V) -> Result<V::Value, Self::Error> {
        let n = self.vals.len();
        vis.visit_seq(HintedSeq { it: self.vals.into_iter(), hint: Some(n) })
    }
    fn deserialize_tuple<V: Visitor<'de>>(self, _len: usize, vis: V) -> Result<V::Value, Self::Error> {
        let n = self.vals.len();
        vis.visit_seq(HintedSeq { it: self.vals.into_iter(), hint: Some(n) })
    }
    fn deserialize_seq<V: Visitor<'de>>(self, vis: V) -> Result<V::Value, Self::Error> {
        let n = self.vals.len();
        vis.visit_seq(HintedSeq { it: self.vals.into_iter(), hint: Some(n) })
    }
    fn is_human_readable(&self) -> bool {
        self.human
    }
    serde::forward_to_deserialize_any! {
        bool i8 i16 i32 i64 i128 u8 u16 u32 u64 u128 f32 f64 char str string bytes byte_buf option unit
        unit_struct newtype_struct tuple_struct map enum identifier ignored_any
    }
}

impl<'de> MapAccess<'de> for SimMap<'de> {
    type Error = serde_json::Error;
    fn next_key_seed<K: DeserializeSeed<'de>>(&mut self, seed: K) -> Result<Option<K::Value>, Self::Error> {
        if Some(self.delivered) == self.error_at {
            self.error_fired.set(true);
            return Err(serde_json::Error::custom("simulated transport error"));
        }
        self.delivered += 1;
        if self.pos >= self.events.len() {
            return Ok(None);
        }
        let repr = self.keys[self.pos % self.keys.len().max(1)];
        seed.deserialize(KeyDe { key: &self.events[self.pos].key, repr }).map(Some)
    }
    fn next_value_seed<S: DeserializeSeed<'de>>(&mut self, seed: S) -> Result<S::Value, Self::Error> {
        if Some(self.delivered) == self.error_at {
            self.error_fired.set(true);
            return Err(serde_json::Error::custom("simulated transport error"));
        }
        self.delivered += 1;
        let v = self.events[self.pos].val.value();
        self.pos += 1;
        match self.hint {
            1 => seed.deserialize(HintedValue { v, seq_hint: Some(usize::MAX) }),
            2 => seed.deserialize(HintedValue { v, seq_hint: Some(1 << 40) }),
            _ => seed.deserialize(v),
        }
    }
    fn size_hint(&self) -> Option<usize> {
        if self.hint == 3 { Some(usize::MAX) } else { None }
    }
}

struct SimDe<'de> {
    map: SimMap<'de>,
}

impl<'de> Deserializer<'de> for SimDe<'de> {
    type Error = serde_json::Error;
    fn deserialize_any<V: Visitor<'de>>(self, v: V) -> Result<V::Value, Self::Error> {
        v.visit_map(self.map)
    }
    serde::forward_to_deserialize_any! {
        bool i8 i16 i32 i64 i128 u8 u16 u32 u64 u128 f32 f64 char str string bytes byte_buf option unit
        unit_struct newtype_struct seq tuple tuple_struct map struct enum identifier ignored_any
    }
}


// ---------------------------------------------------------------------------------------------
// a simulated length-prefixed serialiser: builds a value tree like serde_json's, but remembers
// when the announced length of a sequence or struct differs from what was written

struct LenSer<'a> {
    bad: &'a std::cell::RefCell<Option<String>>,
}

struct LenSeq<'a> {
    bad: &'a std::cell::RefCell<Option<String>>,
    announced: Option<usize>,
    items: Vec<Value>,
}

struct LenStruct<'a> {
    bad: &'a std::cell::RefCell<Option<String>>,
    announced: usize,
    fields: serde_json::Map<String, Value>,
    order: Vec<String>,
}

fn unsupported<T>(what: &str) -> Result<T, serde_json::Error> {
    Err(serde::ser::Error::custom(format!("length-prefixed simulator: {} not supported", what)))
}

impl<'a> serde::Serializer for LenSer<'a> {
    type Ok = Value;
    type Error = serde_json::Error;
    type SerializeSeq = LenSeq<'a>;
    type SerializeTuple = serde::ser::Impossible<Value, serde_json::Error>;
    type SerializeTupleStruct = serde::ser::Impossible<Value, serde_json::Error>;
    type SerializeTupleVariant = serde::ser::Impossible<Value, serde_json::Error>;
    type SerializeMap = serde::ser::Impossible<Value, serde_json::Error>;
    type SerializeStruct = LenStruct<'a>;
    type SerializeStructVariant = serde::ser::Impossible<Value, serde_json::Error>;
    fn serialize_bool(self, v: bool) -> Result<Value, Self::Error> { Ok(Value::Bool(v)) }
    fn serialize_i8(self, v: i8) -> Result<Value, Self::Error> { Ok(Value::from(v)) }
    fn serialize_i16(self, v: i16) -> Result<Value, Self::Error> { Ok(Value::from(v)) }
    fn serialize_i32(self, v: i32) -> Result<Value, Self::Error> { Ok(Value::from(v)) }
    fn serialize_i64(self, v: i64) -> Result<Value, Self::Error> { Ok(Value::from(v)) }
    fn serialize_u8(self, v: u8) -> Result<Value, Self::Error> { Ok(Value::from(v)) }
    fn serialize_u16(self, v: u16) -> Result<Value, Self::Error> { Ok(Value::from(v)) }
    fn serialize_u32(self, v: u32) -> Result<Value, Self::Error> { Ok(Value::from(v)) }
    fn serialize_u64(self, v: u64) -> Result<Value, Self::Error> { Ok(Value::from(v)) }
    fn serialize_f32(self, v: f32) -> Result<Value, Self::Error> { Ok(Value::from(v as f64)) }
    fn serialize_f64(self, v: f64) -> Result<Value, Self::Error> { Ok(Value::from(v)) }
    fn serialize_char(self, v: char) -> Result<Value, Self::Error> { Ok(Value::from(v.to_string())) }
    fn serialize_str(self, v: &str) -> Result<Value, Self::Error> { Ok(Value::from(v)) }
    fn serialize_bytes(self, _v: &[u8]) -> Result<Value, Self::Error> { unsupported("bytes") }
    fn serialize_none(self) -> Result<Value, Self::Error> { Ok(Value::Null) }
    fn serialize_some<T: ?Sized + Serialize>(self, v: &T) -> Result<Value, Self::Error> { v.serialize(self) }
    fn serialize_unit(self) -> Result<Value, Self::Error> { Ok(Value::Null) }
    fn serialize_unit_struct(self, _n: &'static str) -> Result<Value, Self::Error> { Ok(Value::Null) }
    fn serialize_unit_variant(self, _n: &'static str, _i: u32, v: &'static str) -> Result<Value, Self::Error> { Ok(Value::from(v)) }
    fn serialize_newtype_struct<T: ?Sized + Serialize>(self, _n: &'static str, v: &T) -> Result<Value, Self::Error> { v.serialize(self) }
    fn serialize_newtype_variant<T: ?Sized + Serialize>(self, _n: &'static str, _i: u32, _v: &'static str, _x: &T) -> Result<Value, Self::Error> { unsupported("enum variants") }
    fn serialize_seq(self, len: Option<usize>) -> Result<LenSeq<'a>, Self::Error> {
        Ok(LenSeq { bad: self.bad, announced: len, items: Vec::new() })
    }
    fn serialize_tuple(self, _len: usize) -> Result<Self::SerializeTuple, Self::Error> { unsupported("tuples") }
    fn serialize_tuple_struct(self, _n: &'static str, _len: usize) -> Result<Self::SerializeTupleStruct, Self::Error> { unsupported("tuple structs") }
    fn serialize_tuple_variant(self, _n: &'static str, _i: u32, _v: &'static str, _len: usize) -> Result<Self::SerializeTupleVariant, Self::Error> { unsupported("tuple variants") }
    fn serialize_map(self, _len: Option<usize>) -> Result<Self::SerializeMap, Self::Error> { unsupported("maps") }
    fn serialize_struct(self, _n: &'static str, len: usize) -> Result<LenStruct<'a>, Self::Error> {
        Ok(LenStruct { bad: self.bad, announced: len, fields: serde_json::Map::new(), order: Vec::new() })
    }
    fn serialize_struct_variant(self, _n: &'static str, _i: u32, _v: &'static str, _len: usize) -> Result<Self::SerializeStructVariant, Self::Error> { unsupported("struct variants") }
    fn is_human_readable(&self) -> bool { false }
}

impl<'a> serde::ser::SerializeSeq for LenSeq<'a> {
    type Ok = Value;
    type Error = serde_json::Error;
    fn serialize_element<T: ?Sized + Serialize>(&mut self, v: &T) -> Result<(), Self::Error> {
        let x = v.serialize(LenSer { bad: self.bad })?;
        self.items.push(x);
        Ok(())
    }
    fn end(self) -> Result<Value, Self::Error> {
        match self.announced {
            Some(n) if n != self.items.len() => {
                let mut b = self.bad.borrow_mut();
                if b.is_none() {
                    *b = Some(format!("a sequence announced {} elements but {} were written", n, self.items.len()));
                }
            }
            _ => {}
        }
        Ok(Value::Array(self.items))
    }
}

impl<'a> serde::ser::SerializeStruct for LenStruct<'a> {
    type Ok = Value;
    type Error = serde_json::Error;
    fn serialize_field<T: ?Sized + Serialize>(&mut self, key: &'static str, v: &T) -> Result<(), Self::Error> {
        let x = v.serialize(LenSer { bad: self.bad })?;
        self.fields.insert(key.to_string(), x);
        self.order.push(key.to_string());
        Ok(())
    }
    fn end(self) -> Result<Value, Self::Error> {
        if self.announced != self.order.len() {
            let mut b = self.bad.borrow_mut();
            if b.is_none() {
                *b = Some(format!("a struct announced {} fields but {} were written", self.announced, self.order.len()));
            }
        }
        // the emission order is kept in a side field so that positional deliveries can use it
        let mut m = self.fields;
        m.insert("\u{0}order".to_string(), Value::Array(self.order.into_iter().map(Value::from).collect()));
        Ok(Value::Object(m))
    }
}

// ---------------------------------------------------------------------------------------------
// execution

fn guard<R>(f: impl FnOnce() -> R) -> Result<R, String> {
    let depth = IN_GUARDED.with(|g| {
        let d = g.get();
        g.set(d + 1);
        d
    });
    let r = catch_unwind(AssertUnwindSafe(f));
    IN_GUARDED.with(|g| g.set(depth));
    r.map_err(|p| p.downcast_ref::<String>().cloned().or_else(|| p.downcast_ref::<&'static str>().map(|s| s.to_string())).unwrap_or_else(|| "<panic>".into()))
}

fn shape_ok<T>(a: &TooDee<T>) -> Result<(), String> {
    let (c, r) = a.size();
    let len = a.data().len();
    if c.checked_mul(r) != Some(len) {
        return Err(format!("accepted array has size ({},{}) but {} cells", c, r, len));
    }
    if (c == 0) != (r == 0) {
        return Err(format!("accepted array has exactly one zero dimension: ({},{})", c, r));
    }
    if a.rows().len() != r || a.cells().len() != len {
        return Err("accepted array reports inconsistent iterator lengths".into());
    }
    Ok(())
}

fn build_array<T: CellTy>(t: &SerdeTrace) -> TooDee<T> {
    let n = t.cols * t.rows;
    let cells: Vec<T> = (0..n).map(|i| T::gen(i, t.salt)).collect();
    match t.build {
        1 => {
            let mut a: TooDee<T> = TooDee::with_capacity(n + 3);
            if t.cols > 0 {
                for row in cells.chunks(t.cols) {
                    a.push_row(row.to_vec());
                }
            }
            a
        }
        2 => {
            let mut a = TooDee::from_vec(t.cols, t.rows, cells);
            a.reserve(7);
            a
        }
        3 => {
            let mut a = TooDee::from_vec(t.rows, t.cols, cells);
            a.swap_dimensions();
            a
        }
        _ => TooDee::from_vec(t.cols, t.rows, cells),
    }
}

fn win_ok(w: Win, c: usize, r: usize) -> bool {
    w.start.0 <= w.end.0 && w.start.1 <= w.end.1 && w.end.0 <= c && w.end.1 <= r && !((w.start.0 == w.end.0 || w.start.1 == w.end.1) && w.start.1 * c + w.start.0 > c * r)
}

/// Serialise `x` with the chosen transport. Ok(Some(bytes|value)) / Ok(None) = an injected write
/// error surfaced as Err (expected) / Err(violation).
enum Wire {
    Text(Vec<u8>),
    Tree(Value),
}

fn serialise<S: Serialize>(x: &S, ser: &SerKind, stats: &mut SStats) -> Result<Option<Wire>, SViol> {
    let v = |detail: String| SViol { kind: "serialize".into(), detail, op: format!("{:?}", ser) };
    match ser {
        SerKind::LenChecked => {
            let bad = std::cell::RefCell::new(None);
            let r = guard(|| x.serialize(LenSer { bad: &bad }));
            stats.tf("length_prefixed_serialiser");
            match r {
                Err(p) => Err(v(format!("serialising into a length-prefixed format panicked: {}", p))),
                Ok(Err(e)) => Err(v(format!("serialising into a length-prefixed format failed: {}", e))),
                Ok(Ok(mut tree)) => {
                    // An announced length that contradicts what is written would corrupt a
                    // length-prefixed format, but C18 speaks about the four serde_json transports,
                    // which ignore it: counted for the evidence, not reported.
                    if bad.borrow().is_some() {
                        stats.tf("announced_length_mismatch_seen");
                    }
                    // drop the bookkeeping of nested structs, keep the top-level order
                    strip_order(&mut tree, true);
                    Ok(Some(Wire::Tree(tree)))
                }
            }
        }
        SerKind::ToString => match guard(|| serde_json::to_string(x)) {
            Err(p) => Err(v(format!("to_string panicked: {}", p))),
            Ok(Err(e)) => Err(v(format!("to_string failed: {}", e))),
            Ok(Ok(s)) => Ok(Some(Wire::Text(s.into_bytes()))),
        },
        SerKind::ToVec => match guard(|| serde_json::to_vec(x)) {
            Err(p) => Err(v(format!("to_vec panicked: {}", p))),
            Ok(Err(e)) => Err(v(format!("to_vec failed: {}", e))),
            Ok(Ok(s)) => Ok(Some(Wire::Text(s))),
        },
        SerKind::ToValue => match guard(|| serde_json::to_value(x)) {
            Err(p) => Err(v(format!("to_value panicked: {}", p))),
            Ok(Err(e)) => Err(v(format!("to_value failed: {}", e))),
            Ok(Ok(s)) => Ok(Some(Wire::Tree(s))),
        },
        SerKind::ToWriter { max_chunk, eintr_every, fail_at } => {
            let mut w = SimWriter { out: Vec::new(), max_chunk: *max_chunk, eintr_every: *eintr_every, fail_at: *fail_at, calls: 0, short_writes: 0, eintrs: 0, failed: false };
            let r = guard(|| serde_json::to_writer(&mut w, x));
            if w.short_writes > 0 {
                stats.tf("short_write");
            }
            if w.eintrs > 0 {
                stats.tf("write_eintr");
            }
            if w.failed {
                stats.tf("write_error");
            }
            match r {
                Err(p) => Err(v(format!("to_writer panicked: {}", p))),
                Ok(Err(e)) => {
                    if w.failed { Ok(None) } else { Err(v(format!("to_writer failed without an injected fault: {}", e))) }
                }
                Ok(Ok(())) => {
                    if w.failed { Err(v("to_writer succeeded although the writer reported an error".into())) } else { Ok(Some(Wire::Text(w.out))) }
                }
            }
        }
    }
}

/// Remove the "\0order" bookkeeping entries (except at the top level when `keep_top`).
fn strip_order(v: &mut Value, keep_top: bool) {
    match v {
        Value::Object(m) => {
            if !keep_top {
                m.remove("\u{0}order");
            }
            for (_, x) in m.iter_mut() {
                strip_order(x, false);
            }
        }
        Value::Array(a) => a.iter_mut().for_each(|x| strip_order(x, false)),
        _ => {}
    }
}

/// The order in which the three fields were written: from the length-prefixed serialiser's
/// bookkeeping, or from the text.
fn emission_order(wire: &Wire) -> Vec<String> {
    match wire {
        Wire::Tree(Value::Object(m)) => match m.get("\u{0}order") {
            Some(Value::Array(a)) => a.iter().filter_map(|x| x.as_str().map(|s| s.to_string())).collect(),
            _ => m.keys().cloned().collect(),
        },
        Wire::Text(b) => {
            let t = String::from_utf8_lossy(b);
            let mut pos: Vec<(usize, String)> = FIELDS.iter().filter_map(|f| t.find(&format!("\"{}\":", f)).map(|p| (p, f.to_string()))).collect();
            pos.sort();
            pos.into_iter().map(|(_, f)| f).collect()
        }
        _ => Vec::new(),
    }
}

/// Outcome of a delivery: Ok(array) / Err(message) / panic.
enum Delivered<T> {
    Arr(TooDee<T>),
    Err(String),
    Panic(String),
}

struct DeliveryInfo {
    hard_fault_fired: bool,
}

fn deliver_text<T: CellTy>(bytes: &[u8], de: &DeKind, stats: &mut SStats) -> (Delivered<T>, DeliveryInfo) {
    let mut info = DeliveryInfo { hard_fault_fired: false };
    let r = match de {
        DeKind::FromStr => match std::str::from_utf8(bytes) {
            Ok(s) => guard(|| serde_json::from_str::<TooDee<T>>(s).map_err(|e| e.to_string())),
            Err(_) => Ok(Err("not UTF-8".into())),
        },
        DeKind::FromSlice => guard(|| serde_json::from_slice::<TooDee<T>>(bytes).map_err(|e| e.to_string())),
        DeKind::FromReader { max_chunk, eintr_every, fault } => {
            let mut rd = SimReader { data: bytes, pos: 0, max_chunk: *max_chunk, eintr_every: *eintr_every, fault: *fault, calls: 0, eintrs: 0, fault_fired: false };
            let r = guard(|| serde_json::from_reader::<_, TooDee<T>>(&mut rd).map_err(|e| e.to_string()));
            if rd.eintrs > 0 {
                stats.tf("read_eintr");
            }
            if *max_chunk < bytes.len() {
                stats.tf("read_chunked");
            }
            if rd.fault_fired {
                info.hard_fault_fired = true;
                stats.tf(match fault {
                    Some((ReadFault::Error, _)) => "read_error",
                    _ => "read_eof",
                });
            }
            r
        }
        DeKind::FromValue => match serde_json::from_slice::<Value>(bytes) {
            Ok(v) => guard(|| serde_json::from_value::<TooDee<T>>(v).map_err(|e| e.to_string())),
            Err(e) => Ok(Err(format!("not JSON: {}", e))),
        },
        DeKind::SimMap { .. } | DeKind::Positional { .. } => unreachable!("delivered from events"),
    };
    let d = match r {
        Err(p) => Delivered::Panic(p),
        Ok(Err(e)) => Delivered::Err(e),
        Ok(Ok(a)) => Delivered::Arr(a),
    };
    (d, info)
}

fn deliver_events<T: CellTy>(events: &[Event], keys: &[KeyRepr], error_at: Option<usize>, hint: u8, stats: &mut SStats) -> (Delivered<T>, DeliveryInfo) {
    let fired = std::cell::Cell::new(false);
    let keys_v: Vec<KeyRepr> = if keys.is_empty() { vec![KeyRepr::Borrowed] } else { keys.to_vec() };
    let r = guard(|| {
        let map = SimMap { events, keys: &keys_v, pos: 0, error_at, delivered: 0, hint, error_fired: &fired };
        TooDee::<T>::deserialize(SimDe { map }).map_err(|e| e.to_string())
    });
    for k in &keys_v {
        stats.tf(match k {
            KeyRepr::Borrowed => "key_borrowed",
            KeyRepr::Transient => "key_transient",
            KeyRepr::Owned => "key_owned",
            KeyRepr::Bytes => "key_bytes",
            KeyRepr::Index { .. } => "key_integer",
        });
    }
    if hint != 0 {
        stats.tf("lying_size_hint");
    }
    if fired.get() {
        stats.tf("event_error");
    }
    let d = match r {
        Err(p) => Delivered::Panic(p),
        Ok(Err(e)) => Delivered::Err(e),
        Ok(Ok(a)) => Delivered::Arr(a),
    };
    (d, DeliveryInfo { hard_fault_fired: fired.get() })
}

fn events_of(v: &Value) -> Option<Vec<Event>> {
    v.as_object().map(|o| o.iter().map(|(k, v)| Event { key: k.clone(), val: Val::Json(v.clone()) }).collect())
}

fn dim_val(d: &DimVal, product: usize) -> Val {
    match d {
        DimVal::Zero => Val::Json(Value::from(0u64)),
        DimVal::One => Val::Json(Value::from(1u64)),
        DimVal::Small(n) => Val::Json(Value::from(*n as u64)),
        DimVal::ProductPlus1 => Val::Json(Value::from(product as u64 + 1)),
        DimVal::ProductMinus1 => Val::Json(Value::from((product as u64).saturating_sub(1))),
        DimVal::Pow32 => Val::Json(Value::from(1u64 << 32)),
        DimVal::Pow63 => Val::Json(Value::from(1u64 << 63)),
        DimVal::MaxU64 => Val::Json(Value::from(u64::MAX)),
        DimVal::Pow64 => Val::Raw("18446744073709551616".into()),
        DimVal::MinusOne => Val::Json(Value::from(-1i64)),
        DimVal::Fraction => Val::Raw("1.5".into()),
        DimVal::IntegralFloat => Val::Raw("5.0".into()),
        DimVal::Str => Val::Json(Value::from("5")),
        DimVal::Null => Val::Json(Value::Null),
        DimVal::True => Val::Json(Value::Bool(true)),
        DimVal::Arr => Val::Json(Value::Array(vec![])),
        DimVal::Obj => Val::Json(Value::Object(Default::default())),
    }
}

const FIELDS: [&str; 3] = ["num_cols", "num_rows", "data"];

fn apply_muts(events: &mut Vec<Event>, muts: &[DocMut], elem: ElemTy, stats: &mut SStats) -> bool {
    let mut nest = false;
    for m in muts {
        let find = |ev: &Vec<Event>, f: u8| ev.iter().position(|e| e.key == FIELDS[(f % 3) as usize]);
        let data_len = events.iter().rev().find(|e| e.key == "data").and_then(|e| e.val.value().as_array().map(|a| a.len())).unwrap_or(0);
        match m {
            DocMut::Drop { field } => {
                if let Some(i) = find(events, *field) {
                    events.remove(i);
                    stats.dm("ev_drop");
                }
            }
            DocMut::Dup { field, different, at_end } => {
                if let Some(i) = find(events, *field) {
                    let mut e = events[i].clone();
                    if *different {
                        e.val = match e.val.value() {
                            Value::Number(n) => Val::Json(Value::from(n.as_u64().unwrap_or(0).wrapping_add(1))),
                            Value::Array(mut a) => {
                                a.pop();
                                Val::Json(Value::Array(a))
                            }
                            other => Val::Json(other),
                        };
                    }
                    if *at_end { events.push(e) } else { events.insert(i, e) }
                    stats.dm("ev_dup");
                }
            }
            DocMut::Reorder { rot } => {
                if !events.is_empty() {
                    let k = rot % events.len();
                    events.rotate_left(k);
                    if events.len() > 2 && rot % 2 == 1 {
                        events.swap(0, 1);
                    }
                    stats.dm("ev_reorder");
                }
            }
            DocMut::Unknown { pos, key } => {
                let k = ["extra", "numcols", "Data", "num_cols ", ""][(*key % 5) as usize];
                let p = pos % (events.len() + 1);
                events.insert(p, Event { key: k.to_string(), val: Val::Json(Value::from(1u64)) });
                stats.dm("ev_unknown");
            }
            DocMut::SetDim { field, val } => {
                let f = field % 2;
                if let Some(i) = find(events, f) {
                    events[i].val = dim_val(val, data_len);
                    stats.dm("dim_value");
                }
            }
            DocMut::Reshape { c, r } => {
                if let Some(i) = find(events, 0) {
                    events[i].val = Val::Json(Value::from(*c as u64));
                }
                if let Some(i) = find(events, 1) {
                    events[i].val = Val::Json(Value::from(*r as u64));
                }
                stats.dm("reshape");
            }
            DocMut::DataLen { delta } => {
                if let Some(i) = find(events, 2) {
                    if let Value::Array(mut a) = events[i].val.value() {
                        if *delta < 0 {
                            a.pop();
                        } else {
                            let extra = a.last().cloned().unwrap_or_else(|| default_elem(elem));
                            a.push(extra);
                        }
                        events[i].val = Val::Json(Value::Array(a));
                        stats.dm("data_len");
                    }
                }
            }
            DocMut::DataNonArray { kind } => {
                if let Some(i) = find(events, 2) {
                    events[i].val = Val::Json(match kind % 4 {
                        0 => Value::Null,
                        1 => Value::from(3u64),
                        2 => Value::from("[]"),
                        _ => Value::Object(Default::default()),
                    });
                    stats.dm("data_non_array");
                }
            }
            DocMut::ElemSwap { pos, kind } => {
                if let Some(i) = find(events, 2) {
                    if let Value::Array(mut a) = events[i].val.value() {
                        if !a.is_empty() {
                            let p = pos % a.len();
                            a[p] = match kind % 5 {
                                0 => Value::from("x"),
                                1 => Value::from(-7i64),
                                2 => Value::Null,
                                3 => Value::from(1u64 << 40),
                                _ => Value::Array(vec![Value::from("y")]),
                            };
                            events[i].val = Val::Json(Value::Array(a));
                            stats.dm("elem_swap");
                        }
                    }
                }
            }
            DocMut::Nest => {
                nest = true;
                stats.dm("nest");
            }
            DocMut::InsertDim { field, val, before } => {
                let f = field % 2;
                if let Some(i) = find(events, f) {
                    let e = Event { key: FIELDS[f as usize].to_string(), val: dim_val(val, data_len) };
                    if *before { events.insert(i, e) } else { events.insert(i + 1, e) }
                    stats.dm("dim_restated");
                }
            }
            DocMut::AsSeq { .. } => {
                stats.dm("as_sequence");
            }
            DocMut::SplitData { at } => {
                if let Some(i) = find(events, 2) {
                    if let Value::Array(a) = events[i].val.value() {
                        let k = at % (a.len() + 1);
                        let (x, y) = a.split_at(k);
                        events[i].val = Val::Json(Value::Array(x.to_vec()));
                        events.insert(i + 1, Event { key: "data".to_string(), val: Val::Json(Value::Array(y.to_vec())) });
                        stats.dm("data_split");
                    }
                }
            }
        }
    }
    nest
}

fn default_elem(elem: ElemTy) -> Value {
    match elem {
        ElemTy::U32 | ElemTy::I64 => Value::from(0u64),
        ElemTy::Str => Value::from(""),
        ElemTy::OptU32 => Value::Null,
        ElemTy::VecU32 => Value::Array(vec![]),
        ElemTy::Nested => serde_json::json!({"data": [], "num_rows": 0, "num_cols": 0}),
    }
}

/// What the stated occurrences of a dimension field allow.
struct DimFacts {
    present: bool,
    /// some occurrence is not a non-negative integer representable in usize (and not an integral float)
    invalid: bool,
    /// values that are non-negative integers representable in usize
    ok: Vec<usize>,
    /// an integral float such as 5.0 was stated: either outcome is accepted, and the value it
    /// denotes counts as stated
    free: Vec<usize>,
}

fn dim_facts(events: &[Event], key: &str) -> DimFacts {
    let mut f = DimFacts { present: false, invalid: false, ok: vec![], free: vec![] };
    for e in events.iter().filter(|e| e.key == key) {
        f.present = true;
        let raw_is_float = matches!(&e.val, Val::Raw(s) if s.contains('.') || s.contains('e') || s.contains('E'));
        match e.val.value() {
            Value::Number(n) => {
                if let (Some(u), false) = (n.as_u64(), raw_is_float) {
                    match usize::try_from(u) {
                        Ok(x) => f.ok.push(x),
                        Err(_) => f.invalid = true,
                    }
                } else if let Some(x) = n.as_f64() {
                    if x >= 0.0 && x.fract() == 0.0 && x < 1.8e19 {
                        f.free.push(x as usize);
                    } else {
                        f.invalid = true;
                    }
                } else {
                    f.invalid = true;
                }
            }
            _ => f.invalid = true,
        }
    }
    f
}

/// Judge a delivery of a (possibly damaged) document against the relation of C19.
fn judge_c19<T: CellTy>(events: &[Event], nested: bool, d: &Delivered<T>, injected_error: bool, what: &str) -> Result<&'static str, SViol> {
    let v = |kind: &str, detail: String| SViol { kind: kind.into(), detail, op: what.to_string() };
    let cols = dim_facts(events, "num_cols");
    let rows = dim_facts(events, "num_rows");
    let data_present = events.iter().any(|e| e.key == "data");
    // data occurrences whose elements all fit the element type (serde_json itself is the judge)
    let datas: Vec<Vec<T>> = events.iter().filter(|e| e.key == "data").filter_map(|e| serde_json::from_value::<Vec<T>>(e.val.value()).ok()).collect();
    let consistent = |c: usize, r: usize, n: usize| c.checked_mul(r) == Some(n) && (c == 0) == (r == 0);
    let any_free = !cols.free.is_empty() || !rows.free.is_empty();
    let mut some_consistent = false;
    for &c in cols.ok.iter().chain(cols.free.iter()) {
        for &r in rows.ok.iter().chain(rows.free.iter()) {
            for dv in &datas {
                if consistent(c, r, dv.len()) {
                    some_consistent = true;
                }
            }
        }
    }
    let strictly_consistent = cols.ok.iter().any(|&c| rows.ok.iter().any(|&r| datas.iter().any(|dv| consistent(c, r, dv.len()))));
    // every occurrence of a field is deserialised when it is met, so one occurrence that does not
    // fit its type (a null / negative / fractional / string dimension, a data array with an element
    // of the wrong type) makes the whole document an error, whatever else it states
    let n_data = events.iter().filter(|e| e.key == "data").count();
    let bad_value = cols.invalid || rows.invalid || datas.len() != n_data;
    let must_err = injected_error || nested || !cols.present || !rows.present || !data_present || !some_consistent || bad_value;
    match d {
        Delivered::Panic(p) => Err(v("panic", format!("deserialisation panicked: {}", p))),
        Delivered::Err(_) => Ok("rejected"),
        Delivered::Arr(a) => {
            if let Err(m) = shape_ok(a) {
                return Err(v("accepted_invalid", m));
            }
            if must_err {
                let why = if injected_error { "a transport error was injected" } else if bad_value { "a stated value does not fit its type (dimension not a non-negative integer, or a data element of the wrong type)" } else if nested { "the array fields are not at the top level" } else if !cols.present || !rows.present || !data_present { "a field is missing" } else { "no stated combination of dimensions and data is consistent" };
                return Err(v("accepted_inconsistent", format!("accepted as {:?} with {} cells although {}", a.size(), a.data().len(), why)));
            }
            let (c, r) = a.size();
            let c_ok = cols.ok.contains(&c) || cols.free.contains(&c);
            let r_ok = rows.ok.contains(&r) || rows.free.contains(&r);
            let d_ok = datas.iter().any(|dv| dv.as_slice() == a.data());
            if !c_ok || !r_ok || !d_ok {
                return Err(v("accepted_different", format!("accepted array (size {:?}, cells {:?}) is not what the document states", a.size(), a.data())));
            }
            let _ = (any_free, strictly_consistent);
            Ok("accepted")
        }
    }
}

fn run_typed<T: CellTy>(t: &SerdeTrace, prop: &str, stats: &mut SStats) -> Result<bool, SViol> {
    let n = t.cols * t.rows;
    if (t.cols == 0) != (t.rows == 0) || n > 40000 {
        stats.skipped += 1;
        return Ok(false);
    }
    let arr: TooDee<T> = build_array(t);
    stats.cells += n as u64;
    if n > 16384 {
        stats.tf("array_over_16384_cells");
    }
    // ---- serialise
    let wire = serialise(&arr, &t.ser, stats)?;
    let wire = match wire {
        None => {
            stats.oc("write_error_reported");
            return Ok(true);
        }
        Some(w) => w,
    };
    let expected = arr;
    finish_delivery(t, prop, wire, expected, stats)
}

fn finish_delivery<T: CellTy>(t: &SerdeTrace, prop: &str, wire: Wire, expected: TooDee<T>, stats: &mut SStats) -> Result<bool, SViol> {
    *stats.pairs.entry(format!("{}->{}", ser_name(&t.ser), de_name(&t.de))).or_insert(0) += 1;
    let what = format!("{}->{}", ser_name(&t.ser), de_name(&t.de));
    let v = |kind: &str, detail: String| SViol { kind: kind.into(), detail, op: what.clone() };
    let order = emission_order(&wire);
    let wire = match wire {
        Wire::Tree(mut tv) => {
            strip_order(&mut tv, false);
            Wire::Tree(tv)
        }
        w => w,
    };
    let tree: Value = match &wire {
        Wire::Tree(v) => v.clone(),
        Wire::Text(b) => match serde_json::from_slice(b) {
            Ok(v) => v,
            Err(e) => return Err(v("serialize", format!("serialised bytes are not JSON: {}", e))),
        },
    };
    let mut events = match events_of(&tree) {
        Some(e) => e,
        None => return Err(v("serialize", "serialised form is not a JSON object".into())),
    };
    let damaged = !t.muts.is_empty() || !t.byte_muts.is_empty();
    if prop == "C18" || !damaged {
        // ---- round trip (benign or hard transport faults only)
        if let DeKind::Positional { human } = &t.de {
            // positional delivery in the order the serialiser wrote the fields: the result must
            // be an error or exactly the original array
            let vals: Vec<Value> = order.iter().filter_map(|k| events.iter().find(|e| &e.key == k).map(|e| e.val.value())).collect();
            if vals.len() != 3 || matches!(t.ser, SerKind::ToValue) {
                // the order in which the fields were written is not known (a value tree sorts its keys)
                stats.skipped += 1;
                return Ok(false);
            }
            let human = *human;
            stats.tf("positional_delivery");
            let r = guard(|| TooDee::<T>::deserialize(SimSeqDe { vals, human }).map_err(|e| e.to_string()));
            return match r {
                Err(p) => Err(v("panic", format!("positional deserialisation panicked: {}", p))),
                Ok(Err(_)) => {
                    stats.oc("positional_rejected");
                    Ok(true)
                }
                Ok(Ok(a)) => {
                    if a.size() != expected.size() || a.data() != expected.data() {
                        return Err(v("round_trip", format!("a positional round trip (fields in the order they were written: {:?}) changed the array: size {:?} -> {:?}", order, expected.size(), a.size())));
                    }
                    stats.oc("positional_round_trip_equal");
                    Ok(true)
                }
            };
        }
        let (d, info): (Delivered<T>, DeliveryInfo) = match &t.de {
            DeKind::SimMap { keys, error_at, hint } => deliver_events(&events, keys, *error_at, *hint, stats),
            DeKind::FromValue => match &wire {
                Wire::Tree(tv) => {
                    let tv = tv.clone();
                    let r = guard(|| serde_json::from_value::<TooDee<T>>(tv).map_err(|e| e.to_string()));
                    (match r {
                        Err(p) => Delivered::Panic(p),
                        Ok(Err(e)) => Delivered::Err(e),
                        Ok(Ok(a)) => Delivered::Arr(a),
                    }, DeliveryInfo { hard_fault_fired: false })
                }
                Wire::Text(b) => deliver_text(b, &t.de, stats),
            },
            _ => {
                let bytes = match &wire {
                    Wire::Text(b) => b.clone(),
                    Wire::Tree(tv) => serde_json::to_vec(tv).unwrap(),
                };
                deliver_text(&bytes, &t.de, stats)
            }
        };
        return match d {
            Delivered::Panic(p) => Err(v("panic", format!("deserialisation panicked: {}", p))),
            Delivered::Err(e) => {
                if info.hard_fault_fired {
                    stats.oc("hard_fault_rejected");
                    Ok(true)
                } else {
                    Err(v("round_trip", format!("a just-serialised array was rejected: {}", e)))
                }
            }
            Delivered::Arr(a) => {
                if info.hard_fault_fired {
                    return Err(v("round_trip", "an array was produced although the transport failed".into()));
                }
                if a.size() != expected.size() || a.data() != expected.data() || a != expected {
                    return Err(v("round_trip", format!("round trip changed the array: size {:?} -> {:?}, cells {:?} -> {:?}", expected.size(), a.size(), expected.data(), a.data())));
                }
                stats.oc("round_trip_equal");
                Ok(true)
            }
        };
    }
    // ---- C19: damaged documents
    let nest = apply_muts(&mut events, &t.muts, t.elem, stats);
    if let Some(DocMut::AsSeq { rot }) = t.muts.iter().find(|m| matches!(m, DocMut::AsSeq { .. })) {
        // positional form: nothing says which value is which field, so only "no panic" and "an
        // accepted array is valid" are demanded
        let mut vals: Vec<String> = events.iter().map(|e| e.val.text()).collect();
        if !vals.is_empty() {
            let k = rot % vals.len();
            vals.rotate_left(k);
        }
        let text = format!("[{}]", vals.join(","));
        let de = match &t.de {
            DeKind::SimMap { .. } | DeKind::Positional { .. } => DeKind::FromStr,
            other => other.clone(),
        };
        let (d, _): (Delivered<T>, DeliveryInfo) = deliver_text(text.as_bytes(), &de, stats);
        return match d {
            Delivered::Panic(p) => Err(v("panic", format!("deserialising a positional document panicked: {}", p))),
            Delivered::Err(_) => {
                stats.oc("positional_rejected");
                Ok(true)
            }
            Delivered::Arr(a) => match shape_ok(&a) {
                Err(m) => Err(v("accepted_invalid", m)),
                Ok(()) => {
                    stats.oc("positional_accepted_valid");
                    Ok(true)
                }
            },
        };
    }
    if t.byte_muts.is_empty() {
        let (d, info, label): (Delivered<T>, DeliveryInfo, String) = match &t.de {
            DeKind::SimMap { keys, error_at, hint } => {
                if nest {
                    // nesting only exists in rendered documents
                    let text = render(&events, true);
                    let (d, i) = deliver_text(text.as_bytes(), &DeKind::FromStr, stats);
                    (d, i, "from_str".into())
                } else {
                    let (d, i) = deliver_events(&events, keys, *error_at, *hint, stats);
                    (d, i, "sim_map".into())
                }
            }
            DeKind::Positional { human } => {
                // damaged document delivered positionally (in the order the events now have)
                let vals: Vec<Value> = events.iter().map(|e| e.val.value()).collect();
                let human = *human;
                stats.tf("positional_delivery");
                let r = guard(|| TooDee::<T>::deserialize(SimSeqDe { vals, human }).map_err(|e| e.to_string()));
                return match r {
                    Err(p) => Err(v("panic", format!("positional deserialisation panicked: {}", p))),
                    Ok(Err(_)) => {
                        stats.oc("positional_rejected");
                        Ok(true)
                    }
                    Ok(Ok(a)) => match shape_ok(&a) {
                        Err(m) => Err(v("accepted_invalid", m)),
                        Ok(()) => {
                            stats.oc("positional_accepted_valid");
                            Ok(true)
                        }
                    },
                };
            }
            other => {
                let text = render(&events, nest);
                let (d, i) = deliver_text(text.as_bytes(), other, stats);
                (d, i, de_name(other).to_string())
            }
        };
        // a generic value tree keeps one entry per key (the last one wins): what is judged is the
        // document that was actually delivered
        let judged: Vec<Event> = if matches!(t.de, DeKind::FromValue) {
            let mut m: Vec<Event> = Vec::new();
            for e in &events {
                match m.iter_mut().find(|x| x.key == e.key) {
                    Some(x) => x.val = e.val.clone(),
                    None => m.push(e.clone()),
                }
            }
            m
        } else {
            events.clone()
        };
        let out = judge_c19(&judged, nest, &d, info.hard_fault_fired, &label)?;
        stats.oc(out);
        return Ok(true);
    }
    // ---- byte-level damage of the rendered text
    let mut bytes = render(&events, nest).into_bytes();
    for bm in &t.byte_muts {
        match bm {
            ByteMut::Flip { pos, bit } => {
                if !bytes.is_empty() {
                    let p = pos % bytes.len();
                    bytes[p] ^= 1 << (bit % 8);
                    stats.dm("byte_flip");
                }
            }
            ByteMut::Truncate { len } => {
                let l = len % (bytes.len() + 1);
                bytes.truncate(l);
                stats.dm("byte_truncate");
            }
            ByteMut::Splice { pos, byte } => {
                let p = pos % (bytes.len() + 1);
                bytes.insert(p, *byte);
                stats.dm("byte_splice");
            }
            ByteMut::Delete { pos } => {
                if !bytes.is_empty() {
                    let p = pos % bytes.len();
                    bytes.remove(p);
                    stats.dm("byte_delete");
                }
            }
        }
    }
    let de = match &t.de {
        DeKind::SimMap { .. } | DeKind::Positional { .. } => DeKind::FromSlice,
        other => other.clone(),
    };
    let (d, _info): (Delivered<T>, DeliveryInfo) = deliver_text(&bytes, &de, stats);
    let is_json = serde_json::from_slice::<Value>(&bytes).is_ok();
    match d {
        Delivered::Panic(p) => Err(v("panic", format!("deserialising damaged bytes panicked: {}", p))),
        Delivered::Err(_) => {
            stats.oc("damaged_rejected");
            Ok(true)
        }
        Delivered::Arr(a) => {
            if let Err(m) = shape_ok(&a) {
                return Err(v("accepted_invalid", m));
            }
            if !is_json {
                return Err(v("accepted_inconsistent", "bytes that are not JSON were accepted".into()));
            }
            stats.oc("damaged_accepted_valid");
            Ok(true)
        }
    }
}

fn ser_name(s: &SerKind) -> &'static str {
    match s {
        SerKind::ToString => "to_string",
        SerKind::ToVec => "to_vec",
        SerKind::ToWriter { .. } => "to_writer",
        SerKind::ToValue => "to_value",
        SerKind::LenChecked => "length_prefixed",
    }
}

fn de_name(d: &DeKind) -> &'static str {
    match d {
        DeKind::FromStr => "from_str",
        DeKind::FromSlice => "from_slice",
        DeKind::FromReader { .. } => "from_reader",
        DeKind::FromValue => "from_value",
        DeKind::SimMap { .. } => "sim_map",
        DeKind::Positional { .. } => "positional",
    }
}

/// Views (u32 only): serialise the view, expect an owned copy of it.
fn run_view(t: &SerdeTrace, prop: &str, stats: &mut SStats) -> Result<bool, SViol> {
    let n = t.cols * t.rows;
    if (t.cols == 0) != (t.rows == 0) || n > 40000 {
        stats.skipped += 1;
        return Ok(false);
    }
    let mut arr: TooDee<u32> = build_array(t);
    let (w, mutable) = match t.source {
        Source::View(w) => (w, false),
        Source::ViewMut(w) => (w, true),
        Source::Owned => unreachable!(),
    };
    if !win_ok(w, t.cols, t.rows) {
        stats.skipped += 1;
        return Ok(false);
    }
    stats.cells += n as u64;
    if (w.end.0 - w.start.0) * (w.end.1 - w.start.1) > 16384 {
        stats.tf("view_over_16384_cells");
    }
    let (wire, expected) = if mutable {
        let v = arr.view_mut(w.start, w.end);
        let wire = serialise(&v, &t.ser, stats)?;
        (wire, TooDee::from(v))
    } else {
        let v = arr.view(w.start, w.end);
        let wire = serialise(&v, &t.ser, stats)?;
        (wire, TooDee::from(v))
    };
    match wire {
        None => {
            stats.oc("write_error_reported");
            Ok(true)
        }
        Some(wire) => finish_delivery(t, prop, wire, expected, stats),
    }
}

pub fn exec(t: &SerdeTrace, prop: &str, stats: &mut SStats) -> Result<bool, SViol> {
    *stats.elems.entry(match t.elem {
        ElemTy::U32 => "u32",
        ElemTy::I64 => "i64",
        ElemTy::Str => "String",
        ElemTy::OptU32 => "Option<u32>",
        ElemTy::VecU32 => "Vec<u32>",
        ElemTy::Nested => "TooDee<u32>",
    }).or_insert(0) += 1;
    if t.source != Source::Owned {
        if t.elem != ElemTy::U32 {
            stats.skipped += 1;
            return Ok(false);
        }
        return run_view(t, prop, stats);
    }
    match t.elem {
        ElemTy::U32 => run_typed::<u32>(t, prop, stats),
        ElemTy::I64 => run_typed::<i64>(t, prop, stats),
        ElemTy::Str => run_typed::<String>(t, prop, stats),
        ElemTy::OptU32 => run_typed::<Option<u32>>(t, prop, stats),
        ElemTy::VecU32 => run_typed::<Vec<u32>>(t, prop, stats),
        ElemTy::Nested => run_typed::<TooDee<u32>>(t, prop, stats),
    }
}

// ---------------------------------------------------------------------------------------------
// generation

fn gen_dimval(rng: &mut Rng) -> DimVal {
    match rng.below(17) {
        0 => DimVal::Zero,
        1 => DimVal::One,
        2 => DimVal::Small(rng.below(9)),
        3 => DimVal::ProductPlus1,
        4 => DimVal::ProductMinus1,
        5 => DimVal::Pow32,
        6 => DimVal::Pow63,
        7 => DimVal::MaxU64,
        8 => DimVal::Pow64,
        9 => DimVal::MinusOne,
        10 => DimVal::Fraction,
        11 => DimVal::IntegralFloat,
        12 => DimVal::Str,
        13 => DimVal::Null,
        14 => DimVal::True,
        15 => DimVal::Arr,
        _ => DimVal::Obj,
    }
}

pub fn gen_trace(rng: &mut Rng, prop: &str, thorough: bool) -> SerdeTrace {
    let max_dim = if rng.chance(1, 64) { 24 } else if thorough { 8 } else { 5 };
    let elem = *[ElemTy::U32, ElemTy::U32, ElemTy::I64, ElemTy::Str, ElemTy::OptU32, ElemTy::VecU32, ElemTy::Nested].get(rng.below(7)).unwrap();
    let (mut cols, mut rows) = match rng.below(10) {
        0 => (0, 0),
        1 => (1, rng.range(1, max_dim)),
        2 => (rng.range(1, max_dim), 1),
        _ => (rng.range(1, max_dim), rng.range(1, max_dim)),
    };
    // very rarely a really large array of plain numbers (buffer-size thresholds in a (de)serialiser)
    let huge = elem == ElemTy::U32 && rng.chance(1, if thorough { 400 } else { 1500 });
    if huge {
        cols = rng.range(100, 190);
        rows = rng.range(100, 190);
    }
    let build = rng.below(4) as u8;
    let salt = rng.below(1000) as u32;
    let mut source = Source::Owned;
    if prop == "C18" && huge && rng.chance(1, 2) {
        // a view that keeps (almost) all of a very large array
        let w = Win { start: (rng.below(3), rng.below(3)), end: (cols - rng.below(3), rows - rng.below(3)) };
        source = if rng.chance(1, 2) { Source::View(w) } else { Source::ViewMut(w) };
    } else if prop == "C18" && elem == ElemTy::U32 && rng.chance(1, 3) {
        // windows exclude the zero-extent placements for which the unclaimed C03 is known to fail
        let c0 = rng.below(cols + 1);
        let c1 = rng.range(c0, cols);
        let r0 = rng.below(rows + 1);
        let r1 = rng.range(r0, rows);
        let mut w = Win { start: (c0, r0), end: (c1, r1) };
        if !win_ok(w, cols, rows) {
            w = Win { start: (0, 0), end: (0, 0) };
        }
        source = if rng.chance(1, 2) { Source::View(w) } else { Source::ViewMut(w) };
    }
    let hard = prop == "C18" && rng.chance(1, 5);
    let ser = match rng.below(5) {
        4 => SerKind::LenChecked,
        0 => SerKind::ToString,
        1 => SerKind::ToVec,
        2 => SerKind::ToValue,
        _ => SerKind::ToWriter { max_chunk: *[1usize, 2, 3, 7, 64, 4096].get(rng.below(6)).unwrap(), eintr_every: *[0usize, 0, 2, 3, 5].get(rng.below(5)).unwrap(), fail_at: if hard && rng.chance(1, 2) { Some(rng.below(60)) } else { None } },
    };
    let n_keys = rng.range(1, 3);
    let de = match rng.below(6) {
        0 => DeKind::FromStr,
        1 => DeKind::FromSlice,
        2 => DeKind::FromValue,
        3 => DeKind::FromReader { max_chunk: *[1usize, 2, 3, 7, 64, 4096].get(rng.below(6)).unwrap(), eintr_every: *[0usize, 0, 2, 3, 5].get(rng.below(5)).unwrap(), fault: if hard { Some((if rng.chance(1, 2) { ReadFault::Error } else { ReadFault::Eof }, rng.below(40))) } else { None } },
        4 if prop == "C19" && elem == ElemTy::U32 && rng.chance(1, 3) => DeKind::Positional { human: rng.chance(1, 2) },
        _ => {
            // integer keys and lying size hints only where rejection is a legal outcome (C19)
            let n_reprs = if prop == "C19" { 5 } else { 4 };
            let keys = (0..n_keys)
                .map(|_| match rng.below(n_reprs) {
                    0 => KeyRepr::Borrowed,
                    1 => KeyRepr::Transient,
                    2 => KeyRepr::Owned,
                    3 => KeyRepr::Bytes,
                    _ => KeyRepr::Index { off: *[0u8, 0, 1, 3, 200].get(rng.below(5)).unwrap() },
                })
                .collect();
            let hint = if rng.chance(1, 5) { rng.range(1, 3) as u8 } else { 0 };
            DeKind::SimMap { keys, error_at: if (hard || prop == "C19") && rng.chance(1, 4) { Some(rng.below(7)) } else { None }, hint }
        }
    };
    let mut muts = Vec::new();
    let mut byte_muts = Vec::new();
    if prop == "C19" {
        if rng.chance(1, 5) {
            for _ in 0..rng.range(1, 3) {
                byte_muts.push(match rng.below(4) {
                    0 => ByteMut::Flip { pos: rng.below(4096), bit: rng.below(8) as u8 },
                    1 => ByteMut::Truncate { len: rng.below(4096) },
                    2 => ByteMut::Splice { pos: rng.below(4096), byte: *[b'"', b',', b'}', b'[', b'0', b'-', b' ', 0xFF, b'\\'].get(rng.below(9)).unwrap() },
                    _ => ByteMut::Delete { pos: rng.below(4096) },
                });
            }
        }
        let n_muts = if byte_muts.is_empty() { rng.range(1, 3) } else { rng.below(2) };
        for _ in 0..n_muts {
            muts.push(match rng.below(17) {
                0 => DocMut::Drop { field: rng.below(3) as u8 },
                1 => DocMut::Dup { field: rng.below(3) as u8, different: rng.chance(1, 2), at_end: rng.chance(1, 2) },
                2 => DocMut::Reorder { rot: rng.below(6) },
                3 => DocMut::Unknown { pos: rng.below(4), key: rng.below(5) as u8 },
                4 | 5 | 6 | 7 => DocMut::SetDim { field: rng.below(2) as u8, val: gen_dimval(rng) },
                8 => {
                    // restate the same number of cells with another (possibly illegal) shape
                    let n = cols * rows;
                    let (c, r) = match rng.below(5) {
                        0 => (0, n),
                        1 => (n, 0),
                        2 => (0, rng.range(1, 9)),
                        3 => (rng.range(1, 9), 0),
                        _ => (1, n),
                    };
                    DocMut::Reshape { c, r }
                }
                9 => DocMut::DataLen { delta: if rng.chance(1, 2) { -1 } else { 1 } },
                10 => DocMut::DataNonArray { kind: rng.below(4) as u8 },
                11 => DocMut::ElemSwap { pos: rng.below(64), kind: rng.below(5) as u8 },
                12 => DocMut::Nest,
                13 => DocMut::SetDim { field: rng.below(2) as u8, val: DimVal::Zero },
                14 => DocMut::InsertDim { field: rng.below(2) as u8, val: gen_dimval(rng), before: rng.chance(2, 3) },
                15 => DocMut::AsSeq { rot: rng.below(3) },
                _ => DocMut::SplitData { at: rng.below(64) },
            });
        }
    }
    if matches!(de, DeKind::Positional { .. }) && rng.chance(1, 2) {
        // an undamaged document delivered positionally: must come back equal, or be rejected
        muts.clear();
        byte_muts.clear();
    }
    SerdeTrace { elem, cols, rows, build, salt, source, ser, de, muts, byte_muts }
}
