//! The array engine: executes explicit steps on a real `TooDee<E>` and on the model, compares
//! outcomes, and audits the array after every step (the invariant monitor).

use crate::alloc;
use crate::elem::*;
use crate::model::{Model, Verdict};
use crate::steps::*;
use std::collections::{BTreeSet, VecDeque};
use std::panic::{catch_unwind, AssertUnwindSafe};
use toodee::{CopyOps, SortOps, TooDee, TooDeeOps, TooDeeOpsMut, TranslateOps};

/// A violation observed by the monitor.
#[derive(Clone, Debug, serde::Serialize, serde::Deserialize)]
pub struct Viol {
    /// violation kind: shape | lens | cells | verdict | drain | ledger | leak | redzone | provenance | audit_panic | crash
    pub kind: String,
    pub detail: String,
    /// index of the step at which it was observed (steps.len() = end-of-run accounting)
    pub step: usize,
    /// name of the operation of that step
    pub op: String,
    /// name of the fault that fired in that step, if any ("unwind:next", "lie:Plus1", "leak")
    pub fault: Option<String>,
    /// a fault fired at or before this step in the run
    pub after_fault: bool,
    /// a leak fault (as opposed to unwind / lie) fired at or before this step
    pub after_leak: bool,
}

thread_local! {
    /// > 0 while code runs under `catch_unwind` on behalf of the system under test; a panic
    /// outside is a harness bug and is printed by the panic hook.
    pub static IN_GUARDED: std::cell::Cell<u32> = const { std::cell::Cell::new(0) };
    /// Source file of the most recent panic (set by the panic hook): tells a panic raised by the
    /// crate under test (`/repo/...`) from one raised by the simulator's own code.
    pub static LAST_PANIC_FILE: std::cell::RefCell<String> = const { std::cell::RefCell::new(String::new()) };
}

pub enum Caught {
    Fault(SimFault),
    Panic(String),
}

/// Run `f` with the fault plan armed; returns the outcome, the per-kind call counts and whether
/// the armed trigger fired.
pub fn guarded<R>(armed: Option<(usize, u32)>, f: impl FnOnce() -> R) -> (Result<R, Caught>, [u32; N_KINDS], bool) {
    plan_begin(armed);
    let depth = IN_GUARDED.with(|g| { let d = g.get(); g.set(d + 1); d });
    let res = catch_unwind(AssertUnwindSafe(f));
    IN_GUARDED.with(|g| g.set(depth));
    let (counts, fired) = plan_end();
    let res = res.map_err(|p| {
        if let Some(f) = p.downcast_ref::<SimFault>() {
            Caught::Fault(*f)
        } else {
            // the message lives on the heap the system under test may just have overwritten:
            // copy it defensively (a garbled String must not take the harness down)
            let msg = catch_unwind(AssertUnwindSafe(|| {
                if let Some(s) = p.downcast_ref::<String>() {
                    if s.len() < 4096 { s.clone() } else { "<oversized panic message>".to_string() }
                } else if let Some(s) = p.downcast_ref::<&'static str>() {
                    (*s).to_string()
                } else {
                    "<non-string panic payload>".to_string()
                }
            }))
            .unwrap_or_else(|_| "<unreadable panic message>".to_string());
            if msg.starts_with('<') {
                // do not run the destructor of a payload that could not be read
                std::mem::forget(p);
            }
            Caught::Panic(msg)
        }
    });
    (res, counts, fired)
}

#[derive(Default, Clone, Debug)]
pub struct RunStats {
    pub steps: u64,
    pub accepted_mutations: u64,
    pub rejected: u64,
    pub skipped: u64,
    pub fired: [u64; N_KINDS],
    pub armed_not_reached: u64,
    pub lies: u64,
    pub leaks: u64,
    pub calls: [u64; N_KINDS],
    pub probes: std::collections::BTreeMap<&'static str, u64>,
    /// small abstract states reached: (shape class, capacity class, op, fault) hashed
    pub states: BTreeSet<u64>,
    pub max_len: usize,
}

impl RunStats {
    pub fn probe(&mut self, name: &'static str) {
        *self.probes.entry(name).or_insert(0) += 1;
    }
}

pub struct Engine<E: Elem> {
    pub arr: TooDee<E>,
    pub model: Model,
    pub bag: Vec<E>,
    /// elements known to have been leaked by faults (allowed)
    pub leaked: i64,
    pub tainted: bool,
    pub tainted_leak: bool,
    pub step_no: usize,
    pub stats: RunStats,
}

/// Largest request (in cells) the simulator will execute when it does not overflow.
const MAX_CELLS: usize = 4096;

enum Mode<'a> {
    Strict,
    Relaxed { pre_ids: &'a BTreeSet<u64>, pre_vals: &'a BTreeSet<u32>, pre_len: usize, val_lo: u32, z_created_before: u64, allow_zero: bool },
}

fn shape_class(n: usize) -> u64 {
    match n {
        0 => 0,
        1 => 1,
        2 => 2,
        3..=4 => 3,
        _ => 4,
    }
}

pub fn exec_copy_op(arr: &mut TooDee<Cid>, op: &CopyOp) {
    match *op {
        CopyOp::FromSlice { len } => {
            let src: Vec<Cid> = (0..len).map(|_| Cid(fresh_val())).collect();
            arr.copy_from_slice(&src);
        }
        CopyOp::FromToodee { c, r } => {
            let src: Vec<Cid> = (0..c * r).map(|_| Cid(fresh_val())).collect();
            let src = TooDee::from_vec(c, r, src);
            arr.copy_from_toodee(&src);
        }
        CopyOp::Within { src, dest } => {
            arr.copy_within(src, dest);
        }
    }
}

/// Execute an in-place operation on an owned array or a mutable view.
/// `supplied` holds the elements the harness minted for this step (in model order).
fn exec_mut_op<E: Elem, A>(a: &mut A, op: &MutOp, supplied: &mut VecDeque<E>)
where
    A: TooDeeOpsMut<E> + SortOps<E> + TranslateOps<E> + CopyOps<E>,
{
    match *op {
        MutOp::Fill => a.fill(supplied.pop_front().unwrap()),
        MutOp::Swap { a: p, b: q } => a.swap(p, q),
        MutOp::SwapRows { r1, r2 } => a.swap_rows(r1, r2),
        MutOp::SwapCols { c1, c2 } => a.swap_cols(c1, c2),
        MutOp::RowPairSwap { r1, r2 } => {
            let (x, y) = a.row_pair_mut(r1, r2);
            x.swap_with_slice(y);
        }
        MutOp::CloneFromSlice { .. } => {
            let src: Vec<E> = supplied.drain(..).collect();
            a.clone_from_slice(&src);
        }
        MutOp::CloneFromToodee { c, r } => {
            let src: Vec<E> = supplied.drain(..).collect();
            let src = TooDee::from_vec(c, r, src);
            a.clone_from_toodee(&src);
        }
        MutOp::Translate { mc, mr } => a.translate_with_wrap((mc, mr)),
        MutOp::FlipRows => a.flip_rows(),
        MutOp::FlipCols => a.flip_cols(),
        MutOp::Sort { variant, idx, m, desc, lawless } => {
            let m = m.max(1);
            let mut counter = 0u32;
            let mut cmp = |x: &E, y: &E| -> std::cmp::Ordering {
                tick(K_CMP);
                if lawless {
                    counter += 1;
                    return [std::cmp::Ordering::Less, std::cmp::Ordering::Greater, std::cmp::Ordering::Equal][(counter % 3) as usize];
                }
                let o = (x.val() % m).cmp(&(y.val() % m));
                if desc { o.reverse() } else { o }
            };
            match variant {
                SortVariant::RowOrd => a.sort_row_ord::<()>(idx),
                SortVariant::UnstableRowOrd => a.sort_unstable_row_ord::<()>(idx),
                SortVariant::ColOrd => a.sort_col_ord::<()>(idx),
                SortVariant::ByRow => a.sort_by_row(idx, &mut cmp),
                SortVariant::UnstableByRow => a.sort_unstable_by_row(idx, &mut cmp),
                SortVariant::ByCol => a.sort_by_col(idx, &mut cmp),
                SortVariant::UnstableByCol => a.sort_unstable_by_col(idx, &mut cmp),
                SortVariant::ByRowKey | SortVariant::UnstableByRowKey | SortVariant::ByColKey | SortVariant::UnstableByColKey => {
                    // descending order through a key: negate within the key type
                    let key = |x: &E| -> i64 {
                        tick(K_KEY);
                        let k = (x.val() % m) as i64;
                        if desc { -k } else { k }
                    };
                    match variant {
                        SortVariant::ByRowKey => a.sort_by_row_key(idx, key),
                        SortVariant::UnstableByRowKey => a.sort_unstable_by_row_key(idx, key),
                        SortVariant::ByColKey => a.sort_by_col_key(idx, key),
                        _ => a.sort_unstable_by_col_key(idx, key),
                    }
                }
            }
        }
        MutOp::SetCoord { c, r } => a[(c, r)] = supplied.pop_front().unwrap(),
        MutOp::SetRowCol { r, c } => a[r][c] = supplied.pop_front().unwrap(),
        MutOp::RowsMutSet { r, c } => {
            let row = a.rows_mut().nth(r).unwrap();
            row[c] = supplied.pop_front().unwrap();
        }
        MutOp::ColMutSet { c, i } => {
            let mut col = a.col_mut(c);
            col[i] = supplied.pop_front().unwrap();
        }
        MutOp::CellsMutSet { i } => {
            let cell = a.cells_mut().nth(i).unwrap();
            *cell = supplied.pop_front().unwrap();
        }
        MutOp::UncheckedSet { c, r } => unsafe {
            *a.get_unchecked_mut((c, r)) = supplied.pop_front().unwrap();
        },
        MutOp::UncheckedRowSet { r, c } => unsafe {
            a.get_unchecked_row_mut(r)[c] = supplied.pop_front().unwrap();
        },
    }
}

/// How many elements the harness must mint for an in-place op applied to a grid of this size.
fn supplied_count(op: &MutOp) -> usize {
    match *op {
        MutOp::Fill | MutOp::SetCoord { .. } | MutOp::SetRowCol { .. } | MutOp::RowsMutSet { .. } | MutOp::ColMutSet { .. } | MutOp::CellsMutSet { .. } | MutOp::UncheckedSet { .. } | MutOp::UncheckedRowSet { .. } => 1,
        MutOp::CloneFromSlice { len } => len,
        MutOp::CloneFromToodee { c, r } => c * r,
        _ => 0,
    }
}

/// Run a drain / by-value iterator through the scripted consumer. Taken items go to `taken`.
/// Returns Err(description) on the first disagreement with the ideal sequence.
fn run_script<E: Elem, I>(mut it: I, script: &Script, ideal: &mut VecDeque<u32>, taken: &mut Vec<E>) -> Result<(), String>
where
    I: Iterator<Item = E> + DoubleEndedIterator + ExactSizeIterator,
{
    let mut verdict = Ok(());
    for (i, &act) in script.acts.iter().enumerate() {
        match act {
            0 | 1 => {
                let (got, want) = if act == 0 { (it.next(), ideal.pop_front()) } else { (it.next_back(), ideal.pop_back()) };
                let gv = got.as_ref().map(|e| e.val());
                if let Some(e) = got {
                    taken.push(e);
                }
                if gv != want {
                    verdict = Err(format!("script action {} ({}) yielded {:?}, ideal {:?}", i, if act == 0 { "next" } else { "next_back" }, gv, want));
                    break;
                }
            }
            a if a >= 4 => {
                let k = ((a - 4) / 2) as usize;
                let back = (a - 4) % 2 == 1;
                // the ideal: the k skipped elements are consumed (dropped by the guard), the next is yielded
                let want = if k >= ideal.len() {
                    ideal.clear();
                    None
                } else if back {
                    for _ in 0..k {
                        ideal.pop_back();
                    }
                    ideal.pop_back()
                } else {
                    for _ in 0..k {
                        ideal.pop_front();
                    }
                    ideal.pop_front()
                };
                let got = if back { it.nth_back(k) } else { it.nth(k) };
                let gv = got.as_ref().map(|e| e.val());
                if let Some(e) = got {
                    taken.push(e);
                }
                if gv != want {
                    verdict = Err(format!("script action {} ({}({})) yielded {:?}, ideal {:?}", i, if back { "nth_back" } else { "nth" }, k, gv, want));
                    break;
                }
            }
            2 => {
                let l = it.len();
                if l != ideal.len() {
                    verdict = Err(format!("script action {}: len() = {}, ideal {}", i, l, ideal.len()));
                    break;
                }
            }
            _ => {
                let h = it.size_hint();
                if h != (ideal.len(), Some(ideal.len())) {
                    verdict = Err(format!("script action {}: size_hint() = {:?}, ideal {}", i, h, ideal.len()));
                    break;
                }
            }
        }
    }
    if script.leak {
        std::mem::forget(it);
    } else {
        drop(it);
    }
    verdict
}

impl<E: Elem> Engine<E> {
    pub fn new() -> Engine<E> {
        Engine { arr: TooDee::default(), model: Model::empty(), bag: Vec::new(), leaked: 0, tainted: false, tainted_leak: false, step_no: 0, stats: RunStats::default() }
    }

    fn viol(&self, kind: &str, detail: String, step: &Step, fault: Option<String>) -> Viol {
        Viol { kind: kind.into(), detail, step: self.step_no, op: step.op.name().into(), fault, after_fault: self.tainted, after_leak: self.tainted_leak }
    }

    fn mint_many(n: usize) -> (Vec<E>, Vec<u32>) {
        let mut es = Vec::with_capacity(n);
        let mut vs = Vec::with_capacity(n);
        for _ in 0..n {
            let v = fresh_val();
            vs.push(Self::mv(v));
            es.push(E::mint(v));
        }
        (es, vs)
    }

    /// The value identity the model records for an element minted with `v`
    /// (zero-sized elements carry no value).
    fn mv(v: u32) -> u32 {
        if E::FLAVOUR == Flavour::ZTok { 0 } else { v }
    }

    fn live_extra() -> i64 {
        // number of live ledgered elements (Tok) or live zero-sized elements
        with_ledger(|l| match E::FLAVOUR {
            Flavour::Tok | Flavour::Fat => l.entries.iter().filter(|e| e.drops == 0).count() as i64,
            Flavour::ZTok => l.z_created as i64 - l.z_dropped as i64,
            Flavour::Cid | Flavour::Mov | Flavour::Giant => 0,
        })
    }

    /// The invariant monitor. Stops at the first failure so that a broken array is never
    /// dereferenced further.
    fn audit(&self, mode: &Mode<'_>) -> Result<(), (&'static str, String)> {
        let arr = &self.arr;
        // (1) red zones
        let v = alloc::take_violation();
        if v != 0 {
            return Err(("redzone", alloc::violation_name(v).into()));
        }
        let vec: &Vec<E> = arr.as_ref();
        if std::mem::size_of::<E>() > 0 && vec.capacity() > 0 {
            let v = alloc::check_block(vec.as_ptr() as *const u8);
            if v != 0 {
                return Err(("redzone", format!("{} (array buffer)", alloc::violation_name(v))));
            }
        }
        // (2) safe shape facts
        let (c, r) = arr.size();
        let len = arr.data().len();
        if vec.len() != len {
            return Err(("shape", format!("data().len()={} but Vec len={}", len, vec.len())));
        }
        if vec.capacity() < len || arr.capacity() != vec.capacity() {
            return Err(("shape", format!("capacity {} / {} < len {}", arr.capacity(), vec.capacity(), len)));
        }
        if c.checked_mul(r) != Some(len) {
            return Err(("shape", format!("num_cols={} num_rows={} but data().len()={}", c, r, len)));
        }
        if (c == 0) != (r == 0) {
            return Err(("shape", format!("exactly one zero dimension: size=({},{})", c, r)));
        }
        if arr.num_cols() != c || arr.num_rows() != r {
            return Err(("shape", "size() disagrees with num_cols()/num_rows()".into()));
        }
        if let Mode::Relaxed { pre_len, z_created_before, .. } = mode {
            if E::FLAVOUR == Flavour::ZTok {
                let created_now = with_ledger(|l| l.z_created);
                let supplied = (created_now - z_created_before) as usize;
                if len > pre_len + supplied {
                    return Err(("provenance", format!("array holds {} zero-sized elements but only {} existed before and {} were supplied", len, pre_len, supplied)));
                }
            }
        }
        if len > (1 << 16) {
            return Err(("shape", format!("array grew to {} elements although at most a few dozen were ever supplied", len)));
        }
        // (3) reported lengths
        if arr.rows().len() != r {
            return Err(("lens", format!("rows().len()={} num_rows={}", arr.rows().len(), r)));
        }
        if arr.cells().len() != len {
            return Err(("lens", format!("cells().len()={} expected {}", arr.cells().len(), len)));
        }
        for cc in 0..c {
            let l = arr.col(cc).len();
            if l != r {
                return Err(("lens", format!("col({}).len()={} num_rows={}", cc, l, r)));
            }
        }
        if arr.is_empty() != (len == 0) {
            return Err(("lens", "is_empty() disagrees with the length".into()));
        }
        // (4) cells through every accessor
        let flat: Vec<u32> = arr.data().iter().map(|e| e.val()).collect();
        let via_cells: Vec<u32> = arr.cells().map(|e| e.val()).collect();
        if via_cells != flat {
            return Err(("cells", format!("cells() {:?} != data() {:?}", via_cells, flat)));
        }
        let via_rows: Vec<u32> = arr.rows().flat_map(|row| row.iter().map(|e| e.val())).collect();
        if via_rows != flat {
            return Err(("cells", format!("rows() {:?} != data() {:?}", via_rows, flat)));
        }
        for rr in 0..r {
            let row = &arr[rr];
            if row.len() != c {
                return Err(("cells", format!("row {} has length {} (num_cols {})", rr, row.len(), c)));
            }
            let urow = unsafe { arr.get_unchecked_row(rr) };
            for cc in 0..c {
                let want = flat[rr * c + cc];
                let a = arr[(cc, rr)].val();
                let b = row[cc].val();
                let d = urow[cc].val();
                let e = unsafe { arr.get_unchecked((cc, rr)).val() };
                if a != want || b != want || d != want || e != want {
                    return Err(("cells", format!("cell ({},{}) read as {} / {} / {} / {} but data() has {}", cc, rr, a, b, d, e, want)));
                }
            }
        }
        for cc in 0..c {
            let col: Vec<u32> = arr.col(cc).map(|e| e.val()).collect();
            let want: Vec<u32> = (0..r).map(|rr| flat[rr * c + cc]).collect();
            if col != want {
                return Err(("cells", format!("col({}) {:?} != {:?}", cc, col, want)));
            }
        }
        if let Mode::Strict = mode {
            if (c, r) != self.model.size() {
                return Err(("cells", format!("size ({},{}) but the model has {:?}", c, r, self.model.size())));
            }
            let want = self.model.flat();
            if flat != want {
                return Err(("cells", format!("cells {:?} but the model has {:?} (size {:?})", flat, want, (c, r))));
            }
        }
        // (5) ledger
        match E::FLAVOUR {
            Flavour::Tok | Flavour::Fat | Flavour::Mov => {
                let mut seen = BTreeSet::new();
                let res = with_ledger(|l| -> Result<(), (&'static str, String)> {
                    if let Some(v) = l.violations.first() {
                        return Err(("ledger", v.clone()));
                    }
                    for (i, e) in arr.data().iter().chain(self.bag.iter()).enumerate() {
                        let place = if i < len { format!("cell {}", i) } else { format!("bag item {}", i - len) };
                        if !e.magic_ok() {
                            return Err(("ledger", format!("{} holds garbage (id={:#x} val={:#x})", place, e.id(), e.val())));
                        }
                        let id = e.id();
                        if id == 0 || id as usize > l.entries.len() {
                            return Err(("ledger", format!("{} holds a never-minted id {}", place, id)));
                        }
                        let ent = &l.entries[id as usize - 1];
                        if ent.drops != 0 {
                            return Err(("ledger", format!("{} holds element id={} val={} that has already been dropped", place, id, ent.val)));
                        }
                        if ent.val != e.val() {
                            return Err(("ledger", format!("{} holds id={} with val {} but it was minted with val {}", place, id, e.val(), ent.val)));
                        }
                        if !seen.insert(id) {
                            return Err(("ledger", format!("{}: element id={} val={} has two owners", place, id, ent.val)));
                        }
                        if i < len {
                            if let Mode::Relaxed { pre_ids, .. } = mode {
                                if !pre_ids.contains(&id) && ent.minted_step != l.step {
                                    return Err(("provenance", format!("cell {} holds id={} that was neither in the array before nor supplied", i, id)));
                                }
                            }
                        }
                    }
                    Ok(())
                });
                res?;
            }
            Flavour::Cid => {
                if let Mode::Relaxed { pre_vals, val_lo, allow_zero, .. } = mode {
                    let hi = with_ledger(|l| l.next_val);
                    for (i, &v) in flat.iter().enumerate() {
                        let ok = pre_vals.contains(&v) || (v >= *val_lo && v < hi) || (*allow_zero && v == 0);
                        if !ok {
                            return Err(("provenance", format!("cell {} holds value {} that was neither in the array before nor supplied", i, v)));
                        }
                    }
                }
            }
            Flavour::ZTok => {
                if let Some(v) = with_ledger(|l| l.violations.first().cloned()) {
                    return Err(("ledger", v));
                }
            }
            Flavour::Giant => {}
        }
        // live-count accounting: nothing forgotten (strict) / nothing conjured (always)
        if !matches!(E::FLAVOUR, Flavour::Cid | Flavour::Mov) {
            let live = Self::live_extra();
            let held = (len + self.bag.len()) as i64;
            match mode {
                Mode::Strict => {
                    if live != held + self.leaked {
                        return Err(("leak", format!("{} elements are live but the array and the caller hold {} (+{} known leaked)", live, held, self.leaked)));
                    }
                }
                Mode::Relaxed { .. } => {
                    if live < held {
                        return Err(("ledger", format!("array and caller hold {} elements but only {} are live", held, live)));
                    }
                }
            }
        }
        Ok(())
    }

    fn audit_guarded(&self, mode: &Mode<'_>) -> Result<(), (&'static str, String)> {
        let depth = IN_GUARDED.with(|g| { let d = g.get(); g.set(d + 1); d });
        let res = catch_unwind(AssertUnwindSafe(|| self.audit(mode)));
        IN_GUARDED.with(|g| g.set(depth));
        match res {
            Ok(r) => r,
            Err(p) => {
                let msg = p.downcast_ref::<String>().cloned().or_else(|| p.downcast_ref::<&'static str>().map(|s| s.to_string())).unwrap_or_default();
                Err(("audit_panic", format!("reading the array panicked: {}", msg)))
            }
        }
    }

    /// Re-synchronise the model from the observed array (only called after a relaxed audit passed).
    fn resync(&mut self) {
        let (c, r) = self.arr.size();
        let flat: Vec<u32> = self.arr.data().iter().map(|e| e.val()).collect();
        self.model = Model::from_flat(c, r, &flat);
        if !matches!(E::FLAVOUR, Flavour::Cid | Flavour::Mov) {
            self.leaked = Self::live_extra() - (self.arr.data().len() + self.bag.len()) as i64;
        }
    }

    fn note_state(&mut self, step: &Step, fault: &Option<String>) {
        let (c, r) = self.model.size();
        let vec: &Vec<E> = self.arr.as_ref();
        let cap_class: u64 = if vec.capacity() == vec.len() { 0 } else if vec.capacity() < vec.len() * 2 { 1 } else { 2 };
        let f = fault.as_deref().unwrap_or("");
        let h = crate::rng::mix(&[shape_class(c), shape_class(r), cap_class, crate::rng::fnv(step.op.name().as_bytes()), crate::rng::fnv(f.as_bytes())]);
        self.stats.states.insert(h);
        self.stats.max_len = self.stats.max_len.max(vec.len());
    }

    /// Execute one step. Err = violation (the run stops).
    pub fn step(&mut self, step: &Step) -> Result<(), Viol> {
        ledger_set_step(self.step_no as u32 + 1);
        self.stats.steps += 1;
        let op = &step.op;
        let lie = op.lie();
        let leaks = op.leaks();

        // snapshot for the relaxed oracle
        let pre_ids: BTreeSet<u64> = self.arr.data().iter().map(|e| e.id()).collect();
        let pre_vals: BTreeSet<u32> = self.arr.data().iter().map(|e| e.val()).collect();
        let pre_len = self.arr.data().len();
        let val_lo = with_ledger(|l| l.next_val);
        let z_created_before = with_ledger(|l| l.z_created);
        let pre_model = self.model.clone();
        let pre_cap_exact = {
            let v: &Vec<E> = self.arr.as_ref();
            v.capacity() == v.len()
        };

        let mut m2 = self.model.clone();
        let mut taken: Vec<E> = Vec::new();
        // `verdict` and `outcome` are produced per operation
        let verdict: Verdict;
        let outcome: Result<Result<(), String>, Caught>;
        let counts: [u32; N_KINDS];
        let fired: bool;
        let mut unstable_sort: Option<(SortVariant, usize, u32, bool, bool, Option<Win>)> = None;
        let mut always_relaxed = false;
        // constructors build the new array inside the guarded region; the old one is replaced
        // (and dropped) outside it, so that its destructors are not part of the operation
        let mut new_arr: Option<TooDee<E>> = None;
        // requests whose size is neither small nor overflowing would depend on the machine's
        // memory: they are not executed
        let mut skip_step = false;

        macro_rules! run {
            ($body:expr) => {{
                let (o, c, f) = guarded(step.fault, $body);
                outcome = o;
                counts = c;
                fired = f;
            }};
        }

        match op {
            // ------------------------------------------------------------ constructors
            Op::New { c, r } => {
                let (c, r) = (*c, *r);
                verdict = match Model::dims_ok(c, r) {
                    Some(n) => {
                        let vals: Vec<u32> = match E::FLAVOUR {
                            Flavour::Tok | Flavour::Fat | Flavour::Mov => (0..n as u32).map(|i| val_lo + i).collect(),
                            _ => vec![0; n],
                        };
                        m2 = Model::from_flat(c, r, &vals);
                        Verdict::Accept
                    }
                    None => Verdict::Reject,
                };
                if matches!(Model::dims_ok(c, r), Some(n) if n > MAX_CELLS) {
                    skip_step = true;
                }
                let slot = &mut new_arr;
                run!(|| {
                    if !skip_step {
                        *slot = Some(TooDee::<E>::new(c, r));
                    }
                    Ok(())
                });
            }
            Op::Init { c, r } => {
                let (c, r) = (*c, *r);
                let v = fresh_val();
                let e = E::mint(v);
                let v = Self::mv(v);
                verdict = match Model::dims_ok(c, r) {
                    Some(n) => {
                        m2 = Model::from_flat(c, r, &vec![v; n]);
                        Verdict::Accept
                    }
                    None => Verdict::Reject,
                };
                if matches!(Model::dims_ok(c, r), Some(n) if n > MAX_CELLS) {
                    skip_step = true;
                }
                let slot = &mut new_arr;
                run!(|| {
                    if !skip_step {
                        *slot = Some(TooDee::init(c, r, e));
                    }
                    Ok(())
                });
            }
            Op::FromVec { c, r, len, .. } | Op::FromBox { c, r, len } => {
                let (c, r, len) = (*c, *r, *len);
                let (mut es, vs) = Self::mint_many(len);
                if let Op::FromVec { extra_cap, .. } = op {
                    es.reserve_exact(*extra_cap);
                }
                verdict = match Model::dims_ok(c, r) {
                    Some(n) if n == len => {
                        m2 = Model::from_flat(c, r, &vs);
                        Verdict::Accept
                    }
                    _ => Verdict::Reject,
                };
                let is_box = matches!(op, Op::FromBox { .. });
                let slot = &mut new_arr;
                run!(|| {
                    *slot = Some(if is_box { TooDee::from_box(c, r, es.into_boxed_slice()) } else { TooDee::from_vec(c, r, es) });
                    Ok(())
                });
            }
            Op::WithCapacity { n } => {
                let n = *n;
                m2 = Model::empty();
                verdict = Verdict::Accept;
                if n > MAX_CELLS {
                    skip_step = true;
                }
                let slot = &mut new_arr;
                run!(|| {
                    if !skip_step {
                        *slot = Some(TooDee::with_capacity(n));
                    }
                    Ok(())
                });
            }
            Op::DefaultNew => {
                m2 = Model::empty();
                verdict = Verdict::Accept;
                let slot = &mut new_arr;
                run!(|| {
                    *slot = Some(TooDee::default());
                    Ok(())
                });
            }
            Op::CloneSelf => {
                verdict = Verdict::Accept;
                let arr = &self.arr;
                let slot = &mut new_arr;
                run!(|| {
                    *slot = Some(arr.clone());
                    Ok(())
                });
            }
            Op::CloneFrom { c, r, extra_cap } => {
                let (c, r) = (*c, *r);
                match Model::dims_ok(c, r) {
                    Some(n) if n <= MAX_CELLS => {
                        let (mut es, vs) = Self::mint_many(n);
                        es.reserve_exact(*extra_cap);
                        let src = TooDee::from_vec(c, r, es);
                        m2 = Model::from_flat(c, r, &vs);
                        verdict = Verdict::Accept;
                        let arr = &mut self.arr;
                        run!(|| {
                            arr.clone_from(&src);
                            Ok(())
                        });
                    }
                    _ => {
                        verdict = Verdict::Skip;
                        outcome = Ok(Ok(()));
                        counts = [0; N_KINDS];
                        fired = false;
                    }
                }
            }
            Op::FromView { win, mutable, via_into, inner } => {
                let (win, mutable, via_into, inner) = (*win, *mutable, *via_into, *inner);
                verdict = if self.model.win_is_n1(win) {
                    Verdict::Skip
                } else if self.model.win_ok(win) {
                    let outer = self.model.sub(win);
                    match inner {
                        None => {
                            m2 = outer;
                            Verdict::Accept
                        }
                        // zero-extent windows of windows are left to the single-level case (N1)
                        Some(iw) if outer.cols == 0 || (outer.win_ok(iw) && (iw.start.0 == iw.end.0 || iw.start.1 == iw.end.1)) => Verdict::Skip,
                        Some(iw) if outer.win_ok(iw) => {
                            m2 = outer.sub(iw);
                            Verdict::Accept
                        }
                        Some(_) => Verdict::Reject,
                    }
                } else {
                    Verdict::Reject
                };
                if verdict == Verdict::Skip {
                    outcome = Ok(Ok(()));
                    counts = [0; N_KINDS];
                    fired = false;
                } else {
                    let arr = &mut self.arr;
                    let slot = &mut new_arr;
                    run!(|| {
                        let n: TooDee<E> = match (mutable, inner) {
                            (false, None) => TooDee::from(arr.view(win.start, win.end)),
                            (false, Some(iw)) => {
                                let v = arr.view(win.start, win.end);
                                TooDee::from(v.view(iw.start, iw.end))
                            }
                            (true, None) if via_into => TooDee::from(toodee::TooDeeView::from(arr.view_mut(win.start, win.end))),
                            (true, None) => TooDee::from(arr.view_mut(win.start, win.end)),
                            (true, Some(iw)) => {
                                let mut v = arr.view_mut(win.start, win.end);
                                if via_into {
                                    TooDee::from(toodee::TooDeeView::from(v.view_mut(iw.start, iw.end)))
                                } else {
                                    TooDee::from(v.view_mut(iw.start, iw.end))
                                }
                            }
                        };
                        *slot = Some(n);
                        Ok(())
                    });
                }
            }
            // ------------------------------------------------------------ inserts
            Op::InsertRow { len, .. } | Op::PushRow { len, .. } | Op::InsertCol { len, .. } | Op::PushCol { len, .. } => {
                let (es, vs) = Self::mint_many(*len);
                let src = SimSource { items: es.into(), lie };
                let arr = &mut self.arr;
                match op {
                    Op::InsertRow { idx, .. } => {
                        verdict = m2.insert_row(*idx, &vs);
                        let idx = *idx;
                        run!(|| {
                            arr.insert_row(idx, src);
                            Ok(())
                        });
                    }
                    Op::PushRow { .. } => {
                        verdict = m2.insert_row(m2.num_rows(), &vs);
                        run!(|| {
                            arr.push_row(src);
                            Ok(())
                        });
                    }
                    Op::InsertCol { idx, .. } => {
                        verdict = m2.insert_col(*idx, &vs);
                        let idx = *idx;
                        run!(|| {
                            arr.insert_col(idx, src);
                            Ok(())
                        });
                    }
                    _ => {
                        verdict = m2.insert_col(m2.cols, &vs);
                        run!(|| {
                            arr.push_col(src);
                            Ok(())
                        });
                    }
                }
            }
            // ------------------------------------------------------------ removes
            Op::RemoveRow { script, .. } | Op::PopRow { script } | Op::RemoveCol { script, .. } | Op::PopCol { script } => {
                let line: Option<Result<Vec<u32>, Verdict>> = match op {
                    Op::RemoveRow { idx, .. } => Some(m2.remove_row(*idx)),
                    Op::PopRow { .. } => {
                        if m2.num_rows() == 0 { None } else { let n = m2.num_rows(); Some(m2.remove_row(n - 1)) }
                    }
                    Op::RemoveCol { idx, .. } => Some(m2.remove_col(*idx)),
                    _ => {
                        if m2.cols == 0 { None } else { let n = m2.cols; Some(m2.remove_col(n - 1)) }
                    }
                };
                let mut ideal: VecDeque<u32> = VecDeque::new();
                let expect_none = line.is_none();
                verdict = match line {
                    None => Verdict::Accept,
                    Some(Ok(l)) => {
                        ideal = l.into();
                        Verdict::Accept
                    }
                    Some(Err(v)) => v,
                };
                let arr = &mut self.arr;
                let taken_ref = &mut taken;
                let ideal_ref = &mut ideal;
                match op {
                    Op::RemoveRow { idx, .. } => {
                        let idx = *idx;
                        run!(|| run_script(arr.remove_row(idx), script, ideal_ref, taken_ref));
                    }
                    Op::PopRow { .. } => {
                        run!(|| match arr.pop_row() {
                            None => if expect_none { Ok(()) } else { Err("pop_row returned None on a non-empty array".to_string()) },
                            Some(d) => if expect_none { drop(d); Err("pop_row returned a drain on an empty array".to_string()) } else { run_script(d, script, ideal_ref, taken_ref) },
                        });
                    }
                    Op::RemoveCol { idx, .. } => {
                        let idx = *idx;
                        run!(|| run_script(arr.remove_col(idx), script, ideal_ref, taken_ref));
                    }
                    _ => {
                        run!(|| match arr.pop_col() {
                            None => if expect_none { Ok(()) } else { Err("pop_col returned None on a non-empty array".to_string()) },
                            Some(d) => if expect_none { drop(d); Err("pop_col returned a drain on an empty array".to_string()) } else { run_script(d, script, ideal_ref, taken_ref) },
                        });
                    }
                }
            }
            Op::Clear => {
                m2.clear();
                verdict = Verdict::Accept;
                let arr = &mut self.arr;
                run!(|| {
                    arr.clear();
                    Ok(())
                });
            }
            Op::SwapDimensions => {
                m2.swap_dimensions();
                verdict = Verdict::Accept;
                let arr = &mut self.arr;
                run!(|| {
                    arr.swap_dimensions();
                    Ok(())
                });
            }
            Op::Reserve { n } | Op::ReserveExact { n } => {
                let n = *n;
                verdict = Verdict::Accept;
                let exact = matches!(op, Op::ReserveExact { .. });
                if n > MAX_CELLS {
                    skip_step = true;
                }
                let arr = &mut self.arr;
                run!(|| {
                    if skip_step {
                        return Ok(());
                    }
                    if exact { arr.reserve_exact(n) } else { arr.reserve(n) }
                    if arr.capacity() < arr.data().len() + n { Err(format!("capacity {} after reserving {} more than len {}", arr.capacity(), n, arr.data().len())) } else { Ok(()) }
                });
            }
            Op::ShrinkToFit => {
                verdict = Verdict::Accept;
                let arr = &mut self.arr;
                run!(|| {
                    arr.shrink_to_fit();
                    Ok(())
                });
            }
            Op::DataMutSet { i } | Op::AsMutSet { i } => {
                let i = *i;
                let v = fresh_val();
                let e = E::mint(v);
                let v = Self::mv(v);
                verdict = if i < m2.len() {
                    let c = m2.cols;
                    m2.rows[i / c][i % c] = v;
                    Verdict::Accept
                } else {
                    Verdict::Reject
                };
                let via_as_mut = matches!(op, Op::AsMutSet { .. });
                let arr = &mut self.arr;
                run!(|| {
                    if via_as_mut {
                        let s: &mut [E] = arr.as_mut();
                        s[i] = e;
                    } else {
                        arr.data_mut()[i] = e;
                    }
                    Ok(())
                });
            }
            // ------------------------------------------------------------ in-place operations
            Op::Mut(mop) => {
                let n = supplied_count(mop);
                let skip = matches!(mop, MutOp::CloneFromToodee { c, r } if Model::dims_ok(*c, *r).is_none()) || n > 4096;
                if skip {
                    verdict = Verdict::Skip;
                    outcome = Ok(Ok(()));
                    counts = [0; N_KINDS];
                    fired = false;
                } else {
                    let (es, vs) = Self::mint_many(n);
                    verdict = m2.apply_mut(mop, &vs, false);
                    if verdict == Verdict::Skip {
                        skip_step = true;
                    }
                    if let MutOp::Sort { variant, idx, m, desc, lawless } = mop {
                        if verdict == Verdict::Accept && (*lawless || !variant.stable()) {
                            unstable_sort = Some((*variant, *idx, *m, *desc, *lawless, None));
                        }
                        if *lawless {
                            always_relaxed = true;
                        }
                    }
                    let mut supplied: VecDeque<E> = es.into();
                    let arr = &mut self.arr;
                    run!(|| {
                        if !skip_step {
                            exec_mut_op(arr, mop, &mut supplied);
                        }
                        Ok(())
                    });
                }
            }
            Op::Copy(cop) => {
                let bad = matches!(cop, CopyOp::FromToodee { c, r } if Model::dims_ok(*c, *r).is_none());
                if bad || E::FLAVOUR != Flavour::Cid {
                    verdict = Verdict::Skip;
                    outcome = Ok(Ok(()));
                    counts = [0; N_KINDS];
                    fired = false;
                } else {
                    // values are minted inside exec_copy_op in order, starting at val_lo
                    let n = match cop {
                        CopyOp::FromSlice { len } => *len,
                        CopyOp::FromToodee { c, r } => c * r,
                        _ => 0,
                    };
                    let vs: Vec<u32> = (0..n as u32).map(|i| val_lo + i).collect();
                    verdict = m2.apply_copy(cop, &vs);
                    let arr = &mut self.arr;
                    run!(|| {
                        E::copy_ops(arr, cop);
                        Ok(())
                    });
                }
            }
            Op::ViewMut { win, op: mop } => {
                let win = *win;
                // Operations on views are ingredients of the fault workloads only: the outcome is
                // always judged by the relaxed oracle (validity, provenance), never by equality.
                always_relaxed = true;
                let n = supplied_count(mop);
                let unchecked_oob = self.model.win_ok(win) && {
                    let sub = self.model.sub(win);
                    match mop {
                        MutOp::UncheckedSet { c, r } => *c >= sub.cols || *r >= sub.num_rows(),
                        MutOp::UncheckedRowSet { r, .. } => *r >= sub.num_rows(),
                        _ => false,
                    }
                };
                let skip = unchecked_oob || self.model.win_is_n1(win) || !self.model.win_ok(win) || matches!(mop, MutOp::CloneFromToodee { c, r } if Model::dims_ok(*c, *r).is_none()) || n > 4096;
                if skip {
                    verdict = Verdict::Skip;
                    outcome = Ok(Ok(()));
                    counts = [0; N_KINDS];
                    fired = false;
                } else {
                    let (es, _vs) = Self::mint_many(n);
                    verdict = Verdict::Either;
                    let mut supplied: VecDeque<E> = es.into();
                    let arr = &mut self.arr;
                    run!(|| {
                        let mut v = arr.view_mut(win.start, win.end);
                        exec_mut_op(&mut v, mop, &mut supplied);
                        Ok(())
                    });
                }
            }
            // ------------------------------------------------------------ leaks of borrow-carrying values
            Op::Leak { kind, arg, win, front, back } => {
                let (kind, arg, win, front, back) = (*kind, *arg, *win, *front, *back);
                let needs_win = matches!(kind, GuardKind::View | GuardKind::ViewMut);
                let skip = needs_win && (self.model.win_is_n1(win) || !self.model.win_ok(win)) || matches!(kind, GuardKind::Col | GuardKind::ColMut) && arg >= self.model.cols;
                if skip {
                    verdict = Verdict::Skip;
                    outcome = Ok(Ok(()));
                    counts = [0; N_KINDS];
                    fired = false;
                } else {
                    verdict = Verdict::Accept;
                    let arr = &mut self.arr;
                    fn consume<I: DoubleEndedIterator>(mut it: I, front: usize, back: usize) {
                        for _ in 0..front {
                            let _ = it.next();
                        }
                        for _ in 0..back {
                            let _ = it.next_back();
                        }
                        std::mem::forget(it);
                    }
                    run!(|| {
                        match kind {
                            GuardKind::Rows => consume(arr.rows(), front, back),
                            GuardKind::RowsMut => consume(arr.rows_mut(), front, back),
                            GuardKind::Col => consume(arr.col(arg), front, back),
                            GuardKind::ColMut => consume(arr.col_mut(arg), front, back),
                            GuardKind::Cells => consume(arr.cells(), front, back),
                            GuardKind::CellsMut => consume(arr.cells_mut(), front, back),
                            GuardKind::View => std::mem::forget(arr.view(win.start, win.end)),
                            GuardKind::ViewMut => std::mem::forget(arr.view_mut(win.start, win.end)),
                        }
                        Ok(())
                    });
                }
            }
            Op::Probe => {
                verdict = Verdict::Accept;
                let arr = &self.arr;
                let model = &self.model;
                run!(|| {
                    use std::hash::{Hash, Hasher};
                    let cl = arr.clone();
                    if cl != *arr {
                        return Err("clone() != original".to_string());
                    }
                    if cl.size() != arr.size() {
                        return Err("clone() has a different size".to_string());
                    }
                    let mut h1 = std::collections::hash_map::DefaultHasher::new();
                    let mut h2 = std::collections::hash_map::DefaultHasher::new();
                    arr.hash(&mut h1);
                    cl.hash(&mut h2);
                    if h1.finish() != h2.finish() {
                        return Err("equal arrays hash differently".to_string());
                    }
                    let dbg = format!("{:?}", arr);
                    let want = format!("{:?}", model.rows);
                    if dbg != want {
                        return Err(format!("Debug output {} but the model prints {}", dbg, want));
                    }
                    let s1: u64 = arr.into_iter().map(|e| e.val() as u64).sum();
                    let s2: u64 = model.flat().iter().map(|&v| v as u64).sum();
                    if s1 != s2 {
                        return Err("sum over &array differs from the model".to_string());
                    }
                    Ok(())
                });
            }
            // ------------------------------------------------------------ terminal conversions
            Op::IntoVec | Op::IntoBox | Op::DropArr => {
                verdict = Verdict::Accept;
                let want = self.model.flat();
                m2 = Model::empty();
                let arr = std::mem::take(&mut self.arr);
                let taken_ref = &mut taken;
                let which = op.clone();
                run!(|| {
                    let got: Vec<E> = match which {
                        Op::IntoVec => arr.into(),
                        Op::IntoBox => {
                            let b: Box<[E]> = arr.into();
                            b.into_vec()
                        }
                        _ => {
                            drop(arr);
                            return Ok(());
                        }
                    };
                    let gv: Vec<u32> = got.iter().map(|e| e.val()).collect();
                    taken_ref.extend(got);
                    if gv != want { Err(format!("conversion yielded {:?}, the model has {:?}", gv, want)) } else { Ok(()) }
                });
            }
            Op::IntoIter { script } => {
                verdict = Verdict::Accept;
                let mut ideal: VecDeque<u32> = self.model.flat().into();
                m2 = Model::empty();
                let arr = std::mem::take(&mut self.arr);
                let taken_ref = &mut taken;
                run!(|| run_script(arr.into_iter(), script, &mut ideal, taken_ref));
            }
        }

        // ---------------------------------------------------------------- settle
        for k in 0..N_KINDS {
            self.stats.calls[k] += counts[k] as u64;
        }
        self.bag.extend(taken.drain(..));
        if let Some(n) = new_arr.take() {
            self.arr = n;
        }
        if verdict == Verdict::Skip || skip_step {
            self.stats.skipped += 1;
            self.step_no += 1;
            return Ok(());
        }
        let fault_name: Option<String> = if fired {
            let k = step.fault.unwrap().0;
            self.stats.fired[k] += 1;
            Some(format!("unwind:{}", KIND_NAMES[k]))
        } else if lie != Lie::Honest {
            self.stats.lies += 1;
            Some(format!("lie:{:?}", lie))
        } else if leaks {
            self.stats.leaks += 1;
            Some("leak".to_string())
        } else {
            if step.fault.is_some() {
                self.stats.armed_not_reached += 1;
            }
            None
        };
        let faulted = fault_name.is_some() || always_relaxed;
        if fault_name.is_some() {
            self.tainted = true;
            if leaks {
                self.tainted_leak = true;
            }
        }

        // a disagreement reported by the scripted consumer or a probe
        if let Ok(Err(msg)) = &outcome {
            if !faulted || leaks {
                let kind = if op.is_remove() || matches!(op, Op::IntoIter { .. }) { "drain" } else { "cells" };
                return Err(self.viol(kind, msg.clone(), step, fault_name));
            }
        }

        if faulted {
            let mode = Mode::Relaxed { pre_ids: &pre_ids, pre_vals: &pre_vals, pre_len, val_lo, z_created_before, allow_zero: matches!(op, Op::New { .. }) };
            if let Err((k, d)) = self.audit_guarded(&mode) {
                return Err(self.viol(k, d, step, fault_name));
            }
            self.resync();
            self.note_state(step, &fault_name);
            self.probe_step(step, &fault_name, &pre_model, fired, pre_cap_exact);
            self.step_no += 1;
            return Ok(());
        }

        let mut was_rejected = false;
        match (&verdict, &outcome) {
            (Verdict::Accept, Ok(_)) => {
                if let Some((variant, idx, m, desc, lawless, _)) = unstable_sort {
                    let (c, r) = self.arr.size();
                    if c.checked_mul(r) == Some(self.arr.data().len()) {
                        let flat: Vec<u32> = self.arr.data().iter().map(|e| e.val()).collect();
                        let after = Model::from_flat(c, r, &flat);
                        if let Err(msg) = Model::check_sort_relation(&pre_model, &after, variant, idx, m, desc, lawless) {
                            return Err(self.viol("cells", format!("unstable sort: {}", msg), step, None));
                        }
                        m2 = after;
                    }
                }
                if m2 != self.model {
                    self.stats.accepted_mutations += 1;
                }
                self.model = m2;
            }
            (Verdict::Accept, Err(Caught::Panic(msg))) => {
                return Err(self.viol("verdict", format!("a valid call panicked: {}", msg), step, None));
            }
            (Verdict::Reject, Ok(_)) => {
                // show what the array looks like now
                let detail = format!("an invalid call was accepted; size is now {:?}, data().len()={}", self.arr.size(), self.arr.data().len());
                // the shape audit may give the sharper message
                if let Err((k, d)) = self.audit_guarded(&Mode::Relaxed { pre_ids: &pre_ids, pre_vals: &pre_vals, pre_len, val_lo, z_created_before, allow_zero: true }) {
                    if k == "shape" {
                        return Err(self.viol(k, format!("{} ({})", d, detail), step, None));
                    }
                }
                return Err(self.viol("verdict", detail, step, None));
            }
            (Verdict::Reject, Err(Caught::Panic(_))) => {
                self.stats.rejected += 1;
                was_rejected = true;
            }
            (Verdict::Either, _) => {}
            (_, Err(Caught::Fault(_))) => unreachable!("fault fired but not marked"),
            (Verdict::Skip, _) => unreachable!(),
        }
        if let Err((k, d)) = self.audit_guarded(&Mode::Strict) {
            // a rejected call that panicked but changed the (still valid) contents differs from the
            // model (C01) without contradicting "panics and leaves a valid array" (C06 / C07)
            let k = if was_rejected && k == "cells" { "cells_after_reject" } else { k };
            return Err(self.viol(k, d, step, None));
        }
        self.note_state(step, &None);
        self.probe_step(step, &None, &pre_model, false, pre_cap_exact);
        self.step_no += 1;
        Ok(())
    }

    /// Reach probes: "this rare condition was hit", computed from arguments and shape.
    fn probe_step(&mut self, step: &Step, fault: &Option<String>, pre: &Model, fired: bool, pre_cap_exact: bool) {
        let (pc, pr) = pre.size();
        let vec_exact = {
            let v: &Vec<E> = self.arr.as_ref();
            v.capacity() == v.len()
        };
        match &step.op {
            Op::InsertCol { idx, .. } if fault.is_none() => {
                if pr >= 2 && *idx > 0 && *idx < pc {
                    self.stats.probe("insert_col_middle_multirow");
                }
                if pc == 0 {
                    self.stats.probe("insert_col_into_empty");
                }
            }
            Op::InsertRow { idx, .. } if fault.is_none() => {
                if pr >= 2 && *idx > 0 && *idx < pr {
                    self.stats.probe("insert_row_middle");
                }
                if pr == 0 {
                    self.stats.probe("insert_row_into_empty");
                }
            }
            Op::RemoveCol { idx, script } | Op::RemoveRow { idx, script } => {
                let f = script.acts.iter().filter(|&&a| a == 0).count();
                let b = script.acts.iter().filter(|&&a| a == 1).count();
                let is_col = matches!(step.op, Op::RemoveCol { .. });
                if f > 0 && b > 0 {
                    self.stats.probe(if is_col { "drain_col_both_ends" } else { "drain_row_both_ends" });
                }
                if f + b == 0 {
                    self.stats.probe(if is_col { "drain_col_untouched" } else { "drain_row_untouched" });
                }
                if is_col && pc >= 3 && *idx > 0 && idx.saturating_add(1) < pc && pr >= 2 {
                    self.stats.probe("remove_col_middle_multirow");
                }
                if (is_col && pc == 1) || (!is_col && pr == 1) {
                    self.stats.probe("remove_last_line");
                }
                if script.leak {
                    self.stats.probe(if is_col { "leak_drain_col" } else { "leak_drain_row" });
                }
            }
            _ => {}
        }
        if step.op.is_insert() && fault.is_none() && vec_exact {
            self.stats.probe("insert_result_exact_capacity");
        }
        if step.op.is_insert() && fault.is_none() && pre_cap_exact && pre.cols > 0 {
            self.stats.probe("insert_into_exact_capacity_buffer");
        }
        if step.op.is_remove() && pre_cap_exact && pre.cols > 0 {
            self.stats.probe("remove_from_exact_capacity_buffer");
        }
        if pre.cols >= 9 || pre.num_rows() >= 9 {
            self.stats.probe("large_shape_step");
        }
        if pre.num_rows() >= 33 || pre.cols >= 33 {
            self.stats.probe("shape_33_or_more");
        }
        if pre.cols * std::mem::size_of::<E>() > 256 && (step.op.is_remove() || step.op.is_insert()) {
            self.stats.probe("structural_edit_with_rows_over_256_bytes");
        }
        match &step.op {
            Op::CloneFrom { c, r, .. } => {
                if (*c, *r) != (pc, pr) && c * r == pc * pr && pc > 0 {
                    self.stats.probe("clone_from_same_count_other_shape");
                }
                self.stats.probe("clone_from");
            }
            Op::RemoveRow { script, .. } | Op::PopRow { script } | Op::RemoveCol { script, .. } | Op::PopCol { script } | Op::IntoIter { script } => {
                if script.acts.iter().any(|&a| a >= 6) {
                    self.stats.probe("guard_consumed_with_nth_jump");
                }
                if script.leak && E::FLAVOUR == Flavour::Mov {
                    self.stats.probe("leak_with_element_without_drop_glue");
                }
            }
            _ => {}
        }
        if fired {
            match &step.op {
                Op::RemoveCol { .. } | Op::PopCol { .. } => self.stats.probe("unwind_during_drain_col"),
                Op::RemoveRow { .. } | Op::PopRow { .. } => self.stats.probe("unwind_during_drain_row"),
                Op::InsertRow { .. } | Op::PushRow { .. } => self.stats.probe("unwind_during_insert_row"),
                Op::InsertCol { .. } | Op::PushCol { .. } => self.stats.probe("unwind_during_insert_col"),
                Op::Mut(MutOp::Sort { .. }) | Op::ViewMut { op: MutOp::Sort { .. }, .. } => self.stats.probe("unwind_during_sort"),
                Op::Mut(MutOp::Fill) | Op::ViewMut { op: MutOp::Fill, .. } => self.stats.probe("unwind_during_fill"),
                Op::Clear => self.stats.probe("unwind_during_clear"),
                _ => {}
            }
        }
        if let Some(f) = fault {
            if f.starts_with("lie") && pc == 0 {
                self.stats.probe("lying_len_on_empty_array");
            }
        }
        if pc == 0 && self.model.cols > 0 {
            self.stats.probe("regrow_from_empty");
        }
        if pc > 0 && self.model.cols == 0 {
            self.stats.probe("shrink_to_empty");
        }
    }

    /// End-of-run accounting: consume the array and the bag, then every element must have been
    /// dropped exactly once (fault-free runs) / at most once (fault runs).
    pub fn finish(mut self, n_steps: usize) -> (RunStats, Option<Viol>) {
        ledger_set_step(n_steps as u32 + 1);
        let tainted = self.tainted;
        let tainted_leak = self.tainted_leak;
        let leaked = self.leaked;
        let stats = std::mem::take(&mut self.stats);
        let mk = |kind: &str, detail: String| Viol { kind: kind.into(), detail, step: n_steps, op: "end_of_run".into(), fault: None, after_fault: tainted, after_leak: tainted_leak };
        let Engine { arr, bag, .. } = self;
        let (res, _, _) = guarded(None, move || {
            drop(arr);
            drop(bag);
        });
        if let Err(Caught::Panic(msg)) = res {
            return (stats, Some(mk("verdict", format!("dropping the array panicked: {}", msg))));
        }
        let v = alloc::take_violation();
        if v != 0 {
            return (stats, Some(mk("redzone", alloc::violation_name(v).into())));
        }
        let problem = with_ledger(|l| -> Option<(&'static str, String)> {
            if let Some(v) = l.violations.first() {
                return Some(("ledger", v.clone()));
            }
            match E::FLAVOUR {
                Flavour::Tok | Flavour::Fat => {
                    let undropped: Vec<(usize, u32)> = l.entries.iter().enumerate().filter(|(_, e)| e.drops == 0).map(|(i, e)| (i + 1, e.val)).collect();
                    if undropped.len() as i64 != leaked {
                        return Some(("leak", format!("{} elements were never dropped (ids/vals {:?}…) but {} were known leaked", undropped.len(), &undropped[..undropped.len().min(5)], leaked)));
                    }
                }
                Flavour::ZTok => {
                    if l.z_created as i64 - l.z_dropped as i64 != leaked {
                        return Some(("leak", format!("{} zero-sized elements created, {} dropped, {} known leaked", l.z_created, l.z_dropped, leaked)));
                    }
                }
                Flavour::Cid | Flavour::Mov | Flavour::Giant => {}
            }
            None
        });
        (stats, problem.map(|(k, d)| mk(k, d)))
    }
}
