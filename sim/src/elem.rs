//! Simulated element types, the drop ledger and the fault plan.
//!
//! `Tok`  : owning element with a unique id per instance, a value identity `val` that `Clone`
//!          copies, and a magic word; every mint / clone / drop goes through the ledger.
//! `Cid`  : `Copy` element (needed by the `Copy`-bounded operations); no ledger.
//! `ZTok` : zero-sized element with create / drop counters.
//!
//! The fault plan counts every call into "caller-supplied code" by kind and panics with a
//! `SimFault` payload at the armed (kind, k).

use std::cell::{Cell, RefCell};
use std::cmp::Ordering;
use std::collections::VecDeque;

// ---------------------------------------------------------------------------------------------
// fault plan

pub const K_INTO_ITER: usize = 0;
pub const K_LEN: usize = 1;
pub const K_NEXT: usize = 2;
pub const K_NEXT_BACK: usize = 3;
pub const K_CLONE: usize = 4;
pub const K_DEFAULT: usize = 5;
pub const K_DROP: usize = 6;
pub const K_CMP: usize = 7;
pub const K_KEY: usize = 8;
pub const K_ITER_DROP: usize = 9;
pub const N_KINDS: usize = 10;
pub const KIND_NAMES: [&str; N_KINDS] = [
    "into_iter", "len", "next", "next_back", "clone", "default", "drop", "cmp", "key", "iter_drop",
];

/// Panic payload of an injected fault (distinguishes it from a library assertion).
#[derive(Debug, Clone, Copy)]
pub struct SimFault {
    pub kind: usize,
    pub k: u32,
}

thread_local! {
    static COUNTS: [Cell<u32>; N_KINDS] = const { [const { Cell::new(0) }; N_KINDS] };
    /// armed trigger: (kind, k) packed; kind == usize::MAX means disarmed
    static ARMED_KIND: Cell<usize> = const { Cell::new(usize::MAX) };
    static ARMED_K: Cell<u32> = const { Cell::new(0) };
    static FIRED: Cell<bool> = const { Cell::new(false) };
    static COUNTING: Cell<bool> = const { Cell::new(false) };
}

/// Start counting calls for one operation; optionally arm one trigger.
pub fn plan_begin(armed: Option<(usize, u32)>) {
    COUNTS.with(|c| c.iter().for_each(|x| x.set(0)));
    FIRED.with(|f| f.set(false));
    COUNTING.with(|f| f.set(true));
    match armed {
        Some((kind, k)) => {
            ARMED_KIND.with(|a| a.set(kind));
            ARMED_K.with(|a| a.set(k));
        }
        None => ARMED_KIND.with(|a| a.set(usize::MAX)),
    }
}

/// Stop counting; returns (counts per kind, whether the armed trigger fired).
pub fn plan_end() -> ([u32; N_KINDS], bool) {
    COUNTING.with(|f| f.set(false));
    ARMED_KIND.with(|a| a.set(usize::MAX));
    let mut out = [0u32; N_KINDS];
    COUNTS.with(|c| {
        for i in 0..N_KINDS {
            out[i] = c[i].get();
        }
    });
    (out, FIRED.with(|f| f.get()))
}

/// Called by every piece of simulated caller code. Panics with `SimFault` at the armed call.
#[inline]
pub fn tick(kind: usize) {
    if !COUNTING.with(|f| f.get()) {
        return;
    }
    let n = COUNTS.with(|c| {
        let n = c[kind].get();
        c[kind].set(n + 1);
        n
    });
    if ARMED_KIND.with(|a| a.get()) == kind && ARMED_K.with(|a| a.get()) == n {
        if (kind == K_DROP || kind == K_ITER_DROP) && std::thread::panicking() {
            // a second panic while unwinding would abort the process: not a fault we inject
            return;
        }
        ARMED_KIND.with(|a| a.set(usize::MAX));
        FIRED.with(|f| f.set(true));
        std::panic::panic_any(SimFault { kind, k: n });
    }
}

// ---------------------------------------------------------------------------------------------
// ledger

pub const TOK_MAGIC: u32 = 0x70C0_FFEE;

#[derive(Clone, Copy, Debug, PartialEq, Eq)]
pub enum Origin {
    Mint,
    Clone,
    Default,
}

#[derive(Clone, Copy, Debug)]
pub struct Entry {
    pub val: u32,
    pub drops: u32,
    pub minted_step: u32,
    pub origin: Origin,
}

#[derive(Default)]
pub struct Ledger {
    pub entries: Vec<Entry>,
    pub violations: Vec<String>,
    pub step: u32,
    pub next_val: u32,
    pub z_created: u64,
    pub z_dropped: u64,
}

thread_local! {
    static LEDGER: RefCell<Ledger> = RefCell::new(Ledger::default());
}

pub fn ledger_reset() {
    LEDGER.with(|l| {
        let mut l = l.borrow_mut();
        l.entries.clear();
        l.violations.clear();
        l.step = 0;
        l.next_val = 1;
        l.z_created = 0;
        l.z_dropped = 0;
    });
}

pub fn ledger_set_step(step: u32) {
    LEDGER.with(|l| l.borrow_mut().step = step);
}

pub fn with_ledger<R>(f: impl FnOnce(&mut Ledger) -> R) -> R {
    LEDGER.with(|l| f(&mut l.borrow_mut()))
}

/// A fresh value identity, unique within the run.
pub fn fresh_val() -> u32 {
    with_ledger(|l| {
        let v = l.next_val;
        l.next_val += 1;
        v
    })
}

fn ledger_mint(val: u32, origin: Origin) -> u64 {
    with_ledger(|l| {
        let step = l.step;
        l.entries.push(Entry { val, drops: 0, minted_step: step, origin });
        l.entries.len() as u64
    })
}

// ---------------------------------------------------------------------------------------------
// element trait

#[derive(Clone, Copy, Debug, PartialEq, Eq, serde::Serialize, serde::Deserialize)]
pub enum Flavour {
    Tok,
    Cid,
    ZTok,
    /// non-`Copy` element *without* drop glue (`mem::needs_drop` is false): unique instance ids,
    /// but no drop accounting
    Mov,
    /// like Tok but 64 bytes large
    Fat,
    /// zero-sized `()` cells with giant shapes (dimension-only model, see giant.rs)
    Giant,
}

pub trait Elem: Sized + Clone + Default + PartialEq + Eq + std::hash::Hash + std::fmt::Debug + Ord + 'static {
    const FLAVOUR: Flavour;
    /// A fresh element carrying `val`.
    fn mint(val: u32) -> Self;
    fn val(&self) -> u32;
    /// Unique instance id, or 0 for flavours without identity.
    fn id(&self) -> u64;
    fn magic_ok(&self) -> bool;
    /// Run the `Copy`-bounded operations (only `Cid` can).
    fn copy_ops(_arr: &mut toodee::TooDee<Self>, _op: &crate::steps::CopyOp) {
        unreachable!("Copy-bounded operation generated for a non-Copy flavour")
    }
}

// ---------------------------------------------------------------------------------------------
// Tok (16 bytes) and Fat (64 bytes): owning, ledgered elements. Two sizes, so that code paths
// chosen by byte size (stack buffers, chunked copies) are reached with ordinary shapes.

macro_rules! ledgered {
    ($name:ident, $flavour:expr, $pad:expr) => {
        #[repr(C)]
        pub struct $name {
            pub id: u64,
            pub val: u32,
            pub magic: u32,
            pub pad: [u64; $pad],
        }

        impl Elem for $name {
            const FLAVOUR: Flavour = $flavour;
            fn mint(val: u32) -> $name {
                $name { id: ledger_mint(val, Origin::Mint), val, magic: TOK_MAGIC, pad: [0x5A5A_5A5A_5A5A_5A5A; $pad] }
            }
            fn val(&self) -> u32 {
                self.val
            }
            fn id(&self) -> u64 {
                self.id
            }
            fn magic_ok(&self) -> bool {
                self.magic == TOK_MAGIC && self.pad.iter().all(|&p| p == 0x5A5A_5A5A_5A5A_5A5A)
            }
        }

        impl Clone for $name {
            fn clone(&self) -> $name {
                tick(K_CLONE);
                $name { id: ledger_mint(self.val, Origin::Clone), val: self.val, magic: TOK_MAGIC, pad: [0x5A5A_5A5A_5A5A_5A5A; $pad] }
            }
        }

        impl Default for $name {
            fn default() -> $name {
                tick(K_DEFAULT);
                let val = fresh_val();
                $name { id: ledger_mint(val, Origin::Default), val, magic: TOK_MAGIC, pad: [0x5A5A_5A5A_5A5A_5A5A; $pad] }
            }
        }

        impl Drop for $name {
            fn drop(&mut self) {
                // Record first (the value *is* dropped), never panic here except for the injected fault.
                let (id, magic, val) = (self.id, self.magic, self.val);
                let pad_ok = self.pad.iter().all(|&p| p == 0x5A5A_5A5A_5A5A_5A5A);
                with_ledger(|l| {
                    if magic != TOK_MAGIC || !pad_ok {
                        l.violations.push(format!("drop of a garbage element (id={:#x} val={:#x} magic={:#x})", id, val, magic));
                    } else if id == 0 || id as usize > l.entries.len() {
                        l.violations.push(format!("drop of a never-minted id {}", id));
                    } else {
                        let e = &mut l.entries[id as usize - 1];
                        e.drops += 1;
                        if e.drops > 1 {
                            let msg = format!("element id={} val={} dropped {} times", id, e.val, e.drops);
                            l.violations.push(msg);
                        }
                    }
                });
                tick(K_DROP);
            }
        }

        impl PartialEq for $name {
            fn eq(&self, o: &$name) -> bool {
                self.val == o.val
            }
        }
        impl Eq for $name {}
        impl std::hash::Hash for $name {
            fn hash<H: std::hash::Hasher>(&self, h: &mut H) {
                self.val.hash(h)
            }
        }
        impl PartialOrd for $name {
            fn partial_cmp(&self, o: &$name) -> Option<Ordering> {
                Some(self.cmp(o))
            }
        }
        impl Ord for $name {
            fn cmp(&self, o: &$name) -> Ordering {
                tick(K_CMP);
                self.val.cmp(&o.val)
            }
        }
        impl std::fmt::Debug for $name {
            fn fmt(&self, f: &mut std::fmt::Formatter<'_>) -> std::fmt::Result {
                write!(f, "{}", self.val)
            }
        }
    };
}

ledgered!(Tok, Flavour::Tok, 0);
ledgered!(Fat, Flavour::Fat, 6);

// ---------------------------------------------------------------------------------------------
// Mov: a move-only handle without a destructor (stands for `&mut T`, unique tokens, ...)

#[repr(C)]
pub struct Mov {
    pub id: u64,
    pub val: u32,
    pub magic: u32,
}

impl Elem for Mov {
    const FLAVOUR: Flavour = Flavour::Mov;
    fn mint(val: u32) -> Mov {
        Mov { id: ledger_mint(val, Origin::Mint), val, magic: TOK_MAGIC }
    }
    fn val(&self) -> u32 {
        self.val
    }
    fn id(&self) -> u64 {
        self.id
    }
    fn magic_ok(&self) -> bool {
        self.magic == TOK_MAGIC
    }
}
impl Clone for Mov {
    fn clone(&self) -> Mov {
        tick(K_CLONE);
        Mov { id: ledger_mint(self.val, Origin::Clone), val: self.val, magic: TOK_MAGIC }
    }
}
impl Default for Mov {
    fn default() -> Mov {
        tick(K_DEFAULT);
        let val = fresh_val();
        Mov { id: ledger_mint(val, Origin::Default), val, magic: TOK_MAGIC }
    }
}
impl PartialEq for Mov {
    fn eq(&self, o: &Mov) -> bool {
        self.val == o.val
    }
}
impl Eq for Mov {}
impl std::hash::Hash for Mov {
    fn hash<H: std::hash::Hasher>(&self, h: &mut H) {
        self.val.hash(h)
    }
}
impl PartialOrd for Mov {
    fn partial_cmp(&self, o: &Mov) -> Option<Ordering> {
        Some(self.cmp(o))
    }
}
impl Ord for Mov {
    fn cmp(&self, o: &Mov) -> Ordering {
        tick(K_CMP);
        self.val.cmp(&o.val)
    }
}
impl std::fmt::Debug for Mov {
    fn fmt(&self, f: &mut std::fmt::Formatter<'_>) -> std::fmt::Result {
        write!(f, "{}", self.val)
    }
}

// ---------------------------------------------------------------------------------------------
// Cid

#[derive(Clone, Copy, Default, PartialEq, Eq, Hash)]
pub struct Cid(pub u32);

impl Elem for Cid {
    const FLAVOUR: Flavour = Flavour::Cid;
    fn mint(val: u32) -> Cid {
        Cid(val)
    }
    fn val(&self) -> u32 {
        self.0
    }
    fn id(&self) -> u64 {
        0
    }
    fn magic_ok(&self) -> bool {
        true
    }
    fn copy_ops(arr: &mut toodee::TooDee<Cid>, op: &crate::steps::CopyOp) {
        crate::array_engine::exec_copy_op(arr, op)
    }
}
impl PartialOrd for Cid {
    fn partial_cmp(&self, o: &Cid) -> Option<Ordering> {
        Some(self.cmp(o))
    }
}
impl Ord for Cid {
    fn cmp(&self, o: &Cid) -> Ordering {
        tick(K_CMP);
        self.0.cmp(&o.0)
    }
}
impl std::fmt::Debug for Cid {
    fn fmt(&self, f: &mut std::fmt::Formatter<'_>) -> std::fmt::Result {
        write!(f, "{}", self.0)
    }
}

// ---------------------------------------------------------------------------------------------
// ZTok

pub struct ZTok;

impl Elem for ZTok {
    const FLAVOUR: Flavour = Flavour::ZTok;
    fn mint(_val: u32) -> ZTok {
        with_ledger(|l| l.z_created += 1);
        ZTok
    }
    fn val(&self) -> u32 {
        0
    }
    fn id(&self) -> u64 {
        0
    }
    fn magic_ok(&self) -> bool {
        true
    }
}
impl Clone for ZTok {
    fn clone(&self) -> ZTok {
        tick(K_CLONE);
        with_ledger(|l| l.z_created += 1);
        ZTok
    }
}
impl Default for ZTok {
    fn default() -> ZTok {
        tick(K_DEFAULT);
        with_ledger(|l| l.z_created += 1);
        ZTok
    }
}
impl Drop for ZTok {
    fn drop(&mut self) {
        with_ledger(|l| {
            l.z_dropped += 1;
            if l.z_dropped > l.z_created {
                let msg = format!("zero-sized element dropped more often ({}) than created ({})", l.z_dropped, l.z_created);
                if l.violations.len() < 4 {
                    l.violations.push(msg);
                }
            }
        });
        tick(K_DROP);
    }
}
impl PartialEq for ZTok {
    fn eq(&self, _: &ZTok) -> bool {
        true
    }
}
impl Eq for ZTok {}
impl std::hash::Hash for ZTok {
    fn hash<H: std::hash::Hasher>(&self, _h: &mut H) {}
}
impl PartialOrd for ZTok {
    fn partial_cmp(&self, o: &ZTok) -> Option<Ordering> {
        Some(self.cmp(o))
    }
}
impl Ord for ZTok {
    fn cmp(&self, _: &ZTok) -> Ordering {
        tick(K_CMP);
        Ordering::Equal
    }
}
impl std::fmt::Debug for ZTok {
    fn fmt(&self, f: &mut std::fmt::Formatter<'_>) -> std::fmt::Result {
        write!(f, "0")
    }
}

// ---------------------------------------------------------------------------------------------
// simulated caller iterator

/// How the simulated iterator misreports its length.
#[derive(Clone, Copy, Debug, PartialEq, Eq, serde::Serialize, serde::Deserialize)]
pub enum Lie {
    Honest,
    Minus1,
    Plus1,
    Plus2,
    Zero,
    HalfMax,
    Max,
    /// honest on the first `len()` call, one too small on every later call (a length that is
    /// not idempotent)
    LaterMinus1,
    /// honest on the first `len()` call, two too large on every later call
    LaterPlus2,
    /// truthful `len()`, but `size_hint()` left at the default `(0, None)` (a sloppy but legal
    /// `ExactSizeIterator` implementation)
    SloppyHint,
}

impl Lie {
    pub fn apply(self, n: usize) -> usize {
        match self {
            Lie::Honest | Lie::LaterMinus1 | Lie::LaterPlus2 | Lie::SloppyHint => n,
            Lie::Minus1 => n.saturating_sub(1),
            Lie::Plus1 => n + 1,
            Lie::Plus2 => n + 2,
            Lie::Zero => 0,
            Lie::HalfMax => usize::MAX / 2 + 1,
            Lie::Max => usize::MAX,
        }
    }
}

/// The `IntoIterator` handed to insert_row / insert_col.
pub struct SimSource<E> {
    pub items: VecDeque<E>,
    pub lie: Lie,
}

pub struct SimIter<E> {
    items: VecDeque<E>,
    lie: Lie,
    len_calls: Cell<u32>,
}

impl<E> SimIter<E> {
    fn reported(&self, first_call: bool) -> usize {
        let n = self.items.len();
        match self.lie {
            Lie::LaterMinus1 if !first_call => n.saturating_sub(1),
            Lie::LaterPlus2 if !first_call => n + 2,
            l => l.apply(n),
        }
    }
}

impl<E> IntoIterator for SimSource<E> {
    type Item = E;
    type IntoIter = SimIter<E>;
    fn into_iter(self) -> SimIter<E> {
        // `self.items` is moved out first so that a fault here drops the items normally
        let SimSource { items, lie } = self;
        let it = SimIter { items, lie, len_calls: Cell::new(0) };
        tick(K_INTO_ITER);
        it
    }
}

impl<E> Iterator for SimIter<E> {
    type Item = E;
    fn next(&mut self) -> Option<E> {
        tick(K_NEXT);
        self.items.pop_front()
    }
    fn size_hint(&self) -> (usize, Option<usize>) {
        if self.lie == Lie::SloppyHint {
            return (0, None);
        }
        let n = self.reported(self.len_calls.get() == 0);
        (n, Some(n))
    }
}

impl<E> DoubleEndedIterator for SimIter<E> {
    fn next_back(&mut self) -> Option<E> {
        tick(K_NEXT_BACK);
        self.items.pop_back()
    }
}

impl<E> ExactSizeIterator for SimIter<E> {
    fn len(&self) -> usize {
        tick(K_LEN);
        let first = self.len_calls.get() == 0;
        self.len_calls.set(self.len_calls.get() + 1);
        self.reported(first)
    }
}

impl<E> Drop for SimIter<E> {
    fn drop(&mut self) {
        tick(K_ITER_DROP);
    }
}
