//! Seeded generation of array-engine steps. Every choice is drawn from the run's PRNG in a
//! fixed order; arguments are chosen relative to the *model's* current shape (valid, boundary,
//! off-by-one, and — only where validation precedes any arithmetic — enormous values).

use crate::elem::*;
use crate::model::Model;
use crate::rng::Rng;
use crate::steps::*;

#[derive(Clone, Copy, Debug, PartialEq, Eq)]
pub enum Profile {
    C01,
    C05,
    C06,
    C07,
    C11,
    C12,
}

impl Profile {
    pub fn parse(s: &str) -> Option<Profile> {
        Some(match s {
            "C01" => Profile::C01,
            "C05" => Profile::C05,
            "C06" => Profile::C06,
            "C07" => Profile::C07,
            "C11" => Profile::C11,
            "C12" => Profile::C12,
            _ => return None,
        })
    }
}

// operation families
pub const F_CONSTRUCT: usize = 0;
pub const F_INSERT_ROW: usize = 1;
pub const F_INSERT_COL: usize = 2;
pub const F_REMOVE_ROW: usize = 3;
pub const F_REMOVE_COL: usize = 4;
pub const F_CLEAR: usize = 5;
pub const F_SWAP_DIMS: usize = 6;
pub const F_CAPACITY: usize = 7;
pub const F_WRITE: usize = 8;
pub const F_FILL: usize = 9;
pub const F_SWAP: usize = 10;
pub const F_CLONE_FROM: usize = 11;
pub const F_COPY: usize = 12;
pub const F_TRANSLATE: usize = 13;
pub const F_SORT: usize = 14;
pub const F_PROBE: usize = 15;
pub const F_TERMINAL: usize = 16;
pub const F_VIEW: usize = 17;
pub const F_LEAK: usize = 18;
pub const N_FAM: usize = 19;

#[derive(Clone, Debug)]
pub struct ArrayCfg {
    pub profile: Profile,
    pub flavour: Flavour,
    pub alloc_mode: u8,
    pub max_dim: usize,
    pub n_steps: usize,
    pub weights: [u32; N_FAM],
    /// per-mille probability that an argument is chosen invalid
    pub invalid_pm: usize,
    /// per-mille probability that a fault-capable step gets a fault (0 in fault-free runs)
    pub fault_pm: usize,
    /// which unwind kinds may be armed in this run (swarm subset)
    pub unwind_kinds: [bool; N_KINDS],
    pub lies: bool,
    pub leaks: bool,
    /// force exact capacity right before inserts (per-mille)
    pub exact_cap_pm: usize,
}

const HUGE: [usize; 3] = [usize::MAX, usize::MAX / 2 + 1, 1 << 32];

pub fn draw_cfg(rng: &mut Rng, profile: Profile, thorough: bool) -> ArrayCfg {
    let flavour = match profile {
        Profile::C05 => *[Flavour::Tok, Flavour::Tok, Flavour::Fat, Flavour::ZTok, Flavour::Mov].get(rng.below(5)).unwrap(),
        Profile::C11 | Profile::C12 => *[Flavour::Tok, Flavour::Tok, Flavour::Tok, Flavour::Fat, Flavour::ZTok, Flavour::Cid, Flavour::Mov].get(rng.below(7)).unwrap(),
        _ => *[Flavour::Tok, Flavour::Fat, Flavour::Cid, Flavour::Cid, Flavour::ZTok, Flavour::Mov].get(rng.below(6)).unwrap(),
    };
    let alloc_mode = rng.below(3) as u8;
    // now and then a much larger shape with a short history (thorough tier)
    let big = rng.chance(1, if thorough { 24 } else { 32 });
    let max_dim = if big { rng.range(9, 44) } else if thorough { rng.range(1, 8) } else { rng.range(1, 6) };
    let n_steps = if big { rng.range(3, 12) } else if thorough { rng.range(4, 80) } else { rng.range(3, 40) };
    let mut w = [0u32; N_FAM];
    let base: [u32; N_FAM] = match profile {
        //             con ir  ic  rr  rc  clr swd cap wr  fil swp clf cpy trn srt prb ter vw  lk
        Profile::C01 => [6, 10, 10, 8, 8, 1, 3, 5, 6, 2, 5, 3, 4, 4, 6, 2, 2, 0, 0],
        Profile::C05 => [6, 10, 10, 8, 8, 2, 2, 4, 6, 3, 3, 4, 0, 2, 3, 1, 5, 0, 0],
        Profile::C06 => [3, 20, 20, 5, 5, 2, 2, 10, 1, 0, 0, 0, 0, 0, 0, 0, 1, 0, 0],
        Profile::C07 => [3, 8, 8, 20, 20, 1, 2, 5, 1, 0, 0, 0, 0, 0, 0, 0, 1, 0, 0],
        Profile::C11 => [6, 14, 14, 6, 8, 3, 1, 3, 4, 6, 1, 6, 0, 1, 8, 0, 2, 8, 0],
        Profile::C12 => [4, 8, 8, 14, 14, 1, 1, 3, 2, 1, 1, 1, 0, 1, 1, 0, 4, 0, 10],
    };
    // swarm: each family is enabled with probability 3/4 (the structural families always)
    for f in 0..N_FAM {
        let always = matches!(f, F_INSERT_ROW | F_INSERT_COL) || (profile == Profile::C07 && matches!(f, F_REMOVE_ROW | F_REMOVE_COL)) || (profile == Profile::C12 && f == F_LEAK);
        w[f] = if always || rng.chance(3, 4) { base[f] } else { 0 };
        if base[f] > 0 && w[f] > 0 && rng.chance(1, 4) {
            w[f] *= 3;
        }
    }
    if flavour != Flavour::Cid {
        w[F_COPY] = 0;
    }
    let invalid_pm = *[0usize, 50, 150, 300].get(rng.below(4)).unwrap();
    let (fault_pm, lies, leaks) = match profile {
        Profile::C11 => (*[150usize, 300, 600].get(rng.below(3)).unwrap(), rng.chance(2, 3), false),
        Profile::C12 => (*[150usize, 300, 600].get(rng.below(3)).unwrap(), false, true),
        // C05 runs a fault-injecting configuration in a third of its runs (kept separate from the
        // fault-free configuration so that the relaxation can never hide an ordinary bug)
        Profile::C05 => {
            if rng.chance(1, 3) { (250, rng.chance(1, 2), rng.chance(1, 2)) } else { (0, false, false) }
        }
        _ => (0, false, false),
    };
    let mut unwind_kinds = [false; N_KINDS];
    if fault_pm > 0 && profile != Profile::C12 {
        for k in 0..N_KINDS {
            unwind_kinds[k] = rng.chance(2, 3);
        }
    }
    let exact_cap_pm = *[0usize, 200, 500].get(rng.below(3)).unwrap();
    ArrayCfg { profile, flavour, alloc_mode, max_dim, n_steps, weights: w, invalid_pm, fault_pm, unwind_kinds, lies, leaks, exact_cap_pm }
}

/// An index for a dimension of size `dim`: valid (0..dim, or 0..=dim when `inclusive`) or,
/// with the configured probability, invalid (dim / dim+1 / enormous).
fn gen_index(rng: &mut Rng, dim: usize, inclusive: bool, cfg: &ArrayCfg) -> usize {
    gen_index_x(rng, dim, 0, inclusive, cfg)
}

/// As `gen_index`; `other` is the dimension the index is multiplied by inside the crate (the
/// width, for a row index), so that some invalid indices are chosen to make that product wrap
/// around to a small in-range offset.
fn gen_index_x(rng: &mut Rng, dim: usize, other: usize, inclusive: bool, cfg: &ArrayCfg) -> usize {
    let hi = if inclusive { dim + 1 } else { dim };
    if hi == 0 || rng.below(1000) < cfg.invalid_pm {
        return match rng.below(8) {
            0 => HUGE[rng.below(3)],
            7 if other > 1 => {
                let top: u128 = if rng.chance(1, 4) { 1 << 63 } else { 1 << 64 };
                let q = (top + other as u128 - 1) / other as u128; // ceil(2^64 / other) or ceil(2^63 / other)
                (q as usize).wrapping_add(rng.below(hi + 1))
            }
            1 | 2 => hi + 1,
            _ => hi,
        };
    }
    // bias towards the ends
    match rng.below(6) {
        0 => 0,
        1 => hi - 1,
        _ => rng.below(hi),
    }
}

fn gen_len(rng: &mut Rng, want: usize, empty: bool, cfg: &ArrayCfg) -> usize {
    if empty {
        // any length is accepted into an empty array
        return match rng.below(8) {
            0 => 0,
            _ => rng.range(1, cfg.max_dim),
        };
    }
    if rng.below(1000) < cfg.invalid_pm {
        return match rng.below(4) {
            0 => want + 1,
            1 => want.saturating_sub(1),
            2 => 0,
            _ => want + 2,
        };
    }
    want
}

fn gen_lie(rng: &mut Rng, cfg: &ArrayCfg) -> Lie {
    if cfg.lies && rng.below(1000) < cfg.fault_pm {
        match cfg.flavour {
            // an enormous claimed length with a zero-sized element cannot fail in `reserve`; the
            // crate then either loops for 2^64 iterations or rejects - keep those out
            Flavour::ZTok => *[Lie::Minus1, Lie::Plus1, Lie::Plus2, Lie::Zero, Lie::LaterMinus1, Lie::LaterPlus2, Lie::SloppyHint].get(rng.below(7)).unwrap(),
            _ => *[Lie::Minus1, Lie::Plus1, Lie::Plus2, Lie::Zero, Lie::HalfMax, Lie::Max, Lie::LaterMinus1, Lie::LaterPlus2, Lie::SloppyHint].get(rng.below(9)).unwrap(),
        }
    } else {
        Lie::Honest
    }
}

pub fn gen_script(rng: &mut Rng, line_len: usize, leak: bool) -> Script {
    // consume f from the front and b from the back, f+b <= len+1 (one past the end now and then)
    let total = match rng.below(5) {
        0 => 0,
        1 => line_len,
        2 => line_len + 1,
        _ => rng.below(line_len + 1),
    };
    let f = rng.below(total + 1);
    let b = total - f;
    let mut acts: Vec<u8> = Vec::new();
    let (mut ff, mut bb) = (f, b);
    while ff + bb > 0 {
        if rng.chance(1, 4) {
            acts.push(if rng.chance(1, 2) { 2 } else { 3 });
        }
        let front = if ff == 0 { false } else if bb == 0 { true } else { rng.chance(1, 2) };
        // now and then the consumer jumps (nth / nth_back / skip): the guard must drop what it skips
        let jump = if rng.chance(1, 6) { rng.below(3) } else { usize::MAX };
        if front {
            if jump != usize::MAX {
                acts.push(4 + 2 * jump as u8);
                ff = ff.saturating_sub(jump + 1);
            } else {
                acts.push(0);
                ff -= 1;
            }
        } else if jump != usize::MAX {
            acts.push(5 + 2 * jump as u8);
            bb = bb.saturating_sub(jump + 1);
        } else {
            acts.push(1);
            bb -= 1;
        }
    }
    if rng.chance(1, 2) {
        acts.push(2);
    }
    Script { acts, leak }
}

fn gen_win(rng: &mut Rng, m: &Model, cfg: &ArrayCfg) -> Win {
    let (c, r) = m.size();
    let c0 = rng.below(c + 1);
    let c1 = rng.range(c0, c);
    let r0 = rng.below(r + 1);
    let r1 = rng.range(r0, r);
    let mut w = Win { start: (c0, r0), end: (c1, r1) };
    if rng.below(1000) < cfg.invalid_pm {
        match rng.below(4) {
            0 => w.end.0 = c + 1,
            1 => w.end.1 = r + 1,
            2 => w.start.0 = w.end.0 + 1,
            _ => w.end.1 = HUGE[rng.below(3)],
        }
    }
    w
}

fn gen_coord(rng: &mut Rng, m: &Model, cfg: &ArrayCfg) -> Coord {
    (gen_index(rng, m.cols, false, cfg), gen_index_x(rng, m.num_rows(), m.cols, false, cfg))
}

/// A shape for a constructor: mostly valid small shapes, sometimes invalid ones.
fn gen_dims(rng: &mut Rng, cfg: &ArrayCfg) -> (usize, usize) {
    if rng.below(1000) < cfg.invalid_pm.max(30) {
        let small = rng.range(1, cfg.max_dim);
        return match rng.below(7) {
            0 => (0, small),
            1 => (small, 0),
            2 => (0, HUGE[rng.below(3)]),
            3 => (HUGE[rng.below(3)], 0),
            4 => (usize::MAX, rng.range(2, 5)),
            5 => (rng.range(2, 5), usize::MAX / 2 + 1),
            _ => (1 << 32, 1 << 32),
        };
    }
    match rng.below(8) {
        0 => (0, 0),
        1 => (1, rng.range(1, cfg.max_dim)),
        2 => (rng.range(1, cfg.max_dim), 1),
        _ => (rng.range(1, cfg.max_dim), rng.range(1, cfg.max_dim)),
    }
}

fn gen_mut_op(rng: &mut Rng, fam: usize, m: &Model, cfg: &ArrayCfg) -> MutOp {
    let (c, r) = m.size();
    match fam {
        F_WRITE => match rng.below(7) {
            5 => {
                // unchecked accessors: in-range coordinates only (anything else is the caller's UB)
                if c == 0 { MutOp::CellsMutSet { i: 0 } } else { MutOp::UncheckedSet { c: rng.below(c), r: rng.below(r) } }
            }
            6 => {
                if c == 0 { MutOp::CellsMutSet { i: 0 } } else { MutOp::UncheckedRowSet { r: rng.below(r), c: gen_index(rng, c, false, cfg) } }
            }
            0 => {
                let (c, r) = gen_coord(rng, m, cfg);
                MutOp::SetCoord { c, r }
            }
            1 => {
                let (c, r) = gen_coord(rng, m, cfg);
                MutOp::SetRowCol { r, c }
            }
            2 => {
                let (c, r) = gen_coord(rng, m, cfg);
                MutOp::RowsMutSet { r, c }
            }
            3 => {
                let cc = gen_index(rng, c, false, cfg);
                // the index into the column stays small: enormous column indices are C09's subject
                let i = if rng.below(1000) < cfg.invalid_pm { r + rng.below(2) } else if r == 0 { 0 } else { rng.below(r) };
                MutOp::ColMutSet { c: cc, i }
            }
            _ => MutOp::CellsMutSet { i: gen_index(rng, c * r, false, cfg) },
        },
        F_FILL => MutOp::Fill,
        F_SWAP => match rng.below(4) {
            0 => MutOp::Swap { a: gen_coord(rng, m, cfg), b: gen_coord(rng, m, cfg) },
            1 => MutOp::SwapRows { r1: gen_index_x(rng, r, c, false, cfg), r2: gen_index_x(rng, r, c, false, cfg) },
            2 => MutOp::SwapCols { c1: gen_index(rng, c, false, cfg), c2: gen_index(rng, c, false, cfg) },
            _ => MutOp::RowPairSwap { r1: gen_index_x(rng, r, c, false, cfg), r2: gen_index_x(rng, r, c, false, cfg) },
        },
        F_CLONE_FROM => {
            if rng.chance(1, 2) {
                let len = if rng.below(1000) < cfg.invalid_pm { c * r + 1 - 2 * rng.below(2).min(c * r) } else { c * r };
                MutOp::CloneFromSlice { len }
            } else if rng.below(1000) < cfg.invalid_pm {
                let (cc, rr) = (rng.range(1, cfg.max_dim), rng.range(1, cfg.max_dim));
                MutOp::CloneFromToodee { c: cc, r: rr }
            } else {
                MutOp::CloneFromToodee { c, r }
            }
        }
        F_TRANSLATE => match rng.below(4) {
            0 => MutOp::FlipRows,
            1 => MutOp::FlipCols,
            _ => MutOp::Translate { mc: gen_index(rng, c, true, cfg), mr: gen_index(rng, r, true, cfg) },
        },
        _ => {
            // F_SORT
            let variant = ALL_SORTS[rng.below(ALL_SORTS.len())];
            let dim = if variant.by_row() { r } else { c };
            let idx = gen_index_x(rng, dim, if variant.by_row() { c } else { r }, false, cfg);
            let m_ = *[1u32, 2, 3, 5, 1 << 30].get(rng.below(5)).unwrap();
            let lawless = cfg.profile == Profile::C11 && !variant.natural() && !variant.keyed() && rng.chance(1, 6);
            MutOp::Sort { variant, idx, m: m_, desc: rng.chance(1, 3), lawless }
        }
    }
}

/// Which kinds of caller code can an operation run? (used to arm a fault that can fire)
fn fault_kinds_for(op: &Op, flavour: Flavour) -> Vec<usize> {
    // which caller code an element type brings along: Clone (all but the Copy flavour), Drop
    // (only the flavours with drop glue)
    let clones = flavour != Flavour::Cid;
    let drops = matches!(flavour, Flavour::Tok | Flavour::Fat | Flavour::ZTok);
    let mut v = Vec::new();
    match op {
        Op::New { .. } => v.push(K_DEFAULT),
        Op::Init { .. } | Op::CloneSelf | Op::FromView { .. } => {
            if clones {
                v.push(K_CLONE)
            }
        }
        Op::CloneFrom { .. } => {
            if clones {
                v.push(K_CLONE)
            }
            if drops {
                v.push(K_DROP)
            }
        }
        Op::InsertRow { .. } | Op::PushRow { .. } => {
            v.extend([K_INTO_ITER, K_LEN, K_NEXT, K_ITER_DROP]);
        }
        Op::InsertCol { .. } | Op::PushCol { .. } => {
            v.extend([K_INTO_ITER, K_LEN, K_NEXT_BACK, K_ITER_DROP]);
        }
        Op::RemoveRow { .. } | Op::PopRow { .. } | Op::RemoveCol { .. } | Op::PopCol { .. } | Op::Clear | Op::IntoIter { .. } | Op::DropArr => {
            if drops {
                v.push(K_DROP)
            }
        }
        Op::DataMutSet { .. } | Op::AsMutSet { .. } => {
            if drops {
                v.push(K_DROP)
            }
        }
        Op::Mut(m) | Op::ViewMut { op: m, .. } => match m {
            MutOp::Fill | MutOp::CloneFromSlice { .. } | MutOp::CloneFromToodee { .. } => {
                if clones {
                    v.push(K_CLONE)
                }
                if drops {
                    v.push(K_DROP)
                }
            }
            MutOp::Sort { variant, .. } => {
                if variant.keyed() {
                    v.push(K_KEY)
                } else {
                    v.push(K_CMP)
                }
            }
            MutOp::SetCoord { .. } | MutOp::SetRowCol { .. } | MutOp::RowsMutSet { .. } | MutOp::ColMutSet { .. } | MutOp::CellsMutSet { .. } | MutOp::UncheckedSet { .. } | MutOp::UncheckedRowSet { .. } => {
                if drops {
                    v.push(K_DROP)
                }
            }
            _ => {}
        },
        _ => {}
    }
    v
}

/// Rough upper bound on the number of calls of `kind` the operation makes (k is drawn in 0..=this).
fn est_calls(op: &Op, kind: usize, m: &Model) -> u32 {
    let (c, r) = m.size();
    let n = (c * r) as u32;
    match (op, kind) {
        (_, K_INTO_ITER) | (_, K_LEN) | (_, K_ITER_DROP) => 1,
        (Op::InsertRow { len, .. }, _) | (Op::PushRow { len, .. }, _) | (Op::InsertCol { len, .. }, _) | (Op::PushCol { len, .. }, _) => *len as u32 + 1,
        (Op::New { c, r }, _) | (Op::Init { c, r }, _) => (c.saturating_mul(*r)).min(80) as u32,
        (Op::RemoveRow { .. }, _) | (Op::PopRow { .. }, _) => c as u32,
        (Op::RemoveCol { .. }, _) | (Op::PopCol { .. }, _) => r as u32,
        (Op::Mut(MutOp::Sort { .. }), _) | (Op::ViewMut { op: MutOp::Sort { .. }, .. }, _) => 3 * c.max(r) as u32 + 2,
        (Op::DataMutSet { .. }, _) | (Op::AsMutSet { .. }, _) => 1,
        (Op::Mut(MutOp::SetCoord { .. }), _) | (Op::Mut(MutOp::SetRowCol { .. }), _) | (Op::Mut(MutOp::RowsMutSet { .. }), _) | (Op::Mut(MutOp::ColMutSet { .. }), _) | (Op::Mut(MutOp::CellsMutSet { .. }), _) => 1,
        _ => n + 1,
    }
}

/// Draw the next step from the model's current shape.
pub fn gen_step(rng: &mut Rng, m: &Model, cfg: &ArrayCfg, cap_is_exact: bool) -> Step {
    let (c, r) = m.size();
    let mut w = cfg.weights;
    // bias: regrow when small, shrink when large
    if c == 0 {
        w[F_INSERT_ROW] *= 3;
        w[F_INSERT_COL] *= 3;
        w[F_CONSTRUCT] *= 2;
    }
    if c >= cfg.max_dim {
        w[F_INSERT_COL] /= 4;
        w[F_REMOVE_COL] *= 2;
    }
    if r >= cfg.max_dim {
        w[F_INSERT_ROW] /= 4;
        w[F_REMOVE_ROW] *= 2;
    }
    if c <= 1 && r <= 1 && cfg.profile != Profile::C07 && cfg.profile != Profile::C12 {
        w[F_REMOVE_ROW] /= 2;
        w[F_REMOVE_COL] /= 2;
    }
    if w.iter().all(|&x| x == 0) {
        w[F_INSERT_ROW] = 1;
    }
    let fam = rng.weighted(&w);
    // "fault right after a state change": force exact capacity immediately before an insert
    if matches!(fam, F_INSERT_ROW | F_INSERT_COL) && !cap_is_exact && rng.below(1000) < cfg.exact_cap_pm {
        return Step { op: Op::ShrinkToFit, fault: None };
    }
    let leak_scripts = cfg.leaks && rng.below(1000) < cfg.fault_pm;
    let op = match fam {
        F_CONSTRUCT => match rng.below(10) {
            0 => Op::DefaultNew,
            1 => Op::WithCapacity { n: rng.below(65) },
            2 => {
                if rng.chance(1, 2) {
                    Op::CloneSelf
                } else {
                    // clone_from: same element count, fewer, or more (inside or beyond the capacity)
                    let (c, r) = match rng.below(4) {
                        0 => m.size(),
                        // the same number of cells in another shape
                        1 => (m.num_rows(), m.cols),
                        _ => gen_dims(rng, cfg),
                    };
                    let (c, r) = if Model::dims_ok(c, r).map_or(true, |n| n > 64) { m.size() } else { (c, r) };
                    Op::CloneFrom { c, r, extra_cap: *[0usize, 0, 3].get(rng.below(3)).unwrap() }
                }
            }
            3 => {
                let win = gen_win(rng, m, cfg);
                let mutable = rng.chance(1, 2);
                let via_into = rng.chance(1, 3);
                let inner = if rng.chance(1, 3) && m.win_ok(win) && !m.win_is_n1(win) { Some(gen_win(rng, &m.sub(win), cfg)) } else { None };
                Op::FromView { win, mutable, via_into, inner }
            }
            4 | 5 => {
                let (c, r) = gen_dims(rng, cfg);
                Op::New { c, r }
            }
            6 => {
                let (c, r) = gen_dims(rng, cfg);
                Op::Init { c, r }
            }
            _ => {
                let (c, r) = gen_dims(rng, cfg);
                let prod = c.checked_mul(r).filter(|&p| p <= 2048).unwrap_or_else(|| rng.below(8));
                let len = if rng.below(1000) < cfg.invalid_pm { prod + 1 - 2 * rng.below(2).min(prod) } else { prod };
                if rng.chance(1, 3) { Op::FromBox { c, r, len } } else { Op::FromVec { c, r, len, extra_cap: *[0usize, 0, 1, 7].get(rng.below(4)).unwrap() } }
            }
        },
        F_INSERT_ROW => {
            let len = gen_len(rng, c, r == 0, cfg);
            let lie = gen_lie(rng, cfg);
            if rng.chance(1, 4) { Op::PushRow { len, lie } } else { Op::InsertRow { idx: gen_index_x(rng, r, c, true, cfg), len, lie } }
        }
        F_INSERT_COL => {
            let len = gen_len(rng, r, c == 0, cfg);
            let lie = gen_lie(rng, cfg);
            if rng.chance(1, 4) { Op::PushCol { len, lie } } else { Op::InsertCol { idx: gen_index_x(rng, c, r, true, cfg), len, lie } }
        }
        F_REMOVE_ROW => {
            let script = gen_script(rng, c, leak_scripts);
            if rng.chance(1, 4) { Op::PopRow { script } } else { Op::RemoveRow { idx: gen_index_x(rng, r, c, false, cfg), script } }
        }
        F_REMOVE_COL => {
            let script = gen_script(rng, r, leak_scripts);
            if rng.chance(1, 4) { Op::PopCol { script } } else { Op::RemoveCol { idx: gen_index_x(rng, c, r, false, cfg), script } }
        }
        F_CLEAR => Op::Clear,
        F_SWAP_DIMS => Op::SwapDimensions,
        F_CAPACITY => match rng.below(3) {
            0 => Op::Reserve { n: rng.below(65) },
            1 => Op::ReserveExact { n: rng.below(65) },
            _ => Op::ShrinkToFit,
        },
        F_WRITE if rng.chance(1, 4) => {
            if rng.chance(1, 2) { Op::DataMutSet { i: gen_index(rng, c * r, false, cfg) } } else { Op::AsMutSet { i: gen_index(rng, c * r, false, cfg) } }
        }
        F_COPY => Op::Copy(match rng.below(4) {
            0 => CopyOp::FromSlice { len: if rng.below(1000) < cfg.invalid_pm { c * r + 1 } else { c * r } },
            1 => {
                if rng.below(1000) < cfg.invalid_pm { CopyOp::FromToodee { c: rng.range(1, cfg.max_dim), r: rng.range(1, cfg.max_dim) } } else { CopyOp::FromToodee { c, r } }
            }
            _ => {
                // rectangles stay small (<= dim+2): the sums in copy_within wrap for enormous
                // arguments in the overflow-unchecked build, which is C14's subject (not claimed)
                let x0 = rng.below(c + 1);
                let x1 = rng.range(x0, c);
                let y0 = rng.below(r + 1);
                let y1 = rng.range(y0, r);
                let (w_, h_) = (x1 - x0, y1 - y0);
                let mut dx = rng.below(c - w_ + 1);
                let mut dy = rng.below(r - h_ + 1);
                let mut br = (x1, y1);
                if rng.below(1000) < cfg.invalid_pm {
                    match rng.below(4) {
                        0 => dx = c - w_ + 1,
                        1 => dy = r - h_ + 1,
                        2 => br.0 = c + 1,
                        _ => br.1 = r + 2,
                    }
                }
                CopyOp::Within { src: ((x0, y0), br), dest: (dx, dy) }
            }
        }),
        F_PROBE => Op::Probe,
        F_TERMINAL => match rng.below(4) {
            0 => Op::IntoVec,
            1 => Op::IntoBox,
            2 => Op::IntoIter { script: gen_script(rng, c * r, leak_scripts) },
            _ => Op::DropArr,
        },
        F_VIEW => {
            let win = gen_win(rng, m, cfg);
            let sub = if m.win_ok(win) { m.sub(win) } else { Model::empty() };
            let fam2 = *[F_FILL, F_FILL, F_CLONE_FROM, F_CLONE_FROM, F_SORT, F_SORT, F_SORT, F_WRITE, F_SWAP, F_TRANSLATE].get(rng.below(10)).unwrap();
            Op::ViewMut { win, op: gen_mut_op(rng, fam2, &sub, cfg) }
        }
        F_LEAK => {
            let kind = *[GuardKind::Rows, GuardKind::RowsMut, GuardKind::Col, GuardKind::ColMut, GuardKind::Cells, GuardKind::CellsMut, GuardKind::View, GuardKind::ViewMut].get(rng.below(8)).unwrap();
            let n = match kind {
                GuardKind::Rows | GuardKind::RowsMut | GuardKind::Col | GuardKind::ColMut => r,
                _ => c * r,
            };
            let front = rng.below(n + 2);
            let back = rng.below(n + 2 - front.min(n + 1));
            Op::Leak { kind, arg: if c == 0 { 0 } else { rng.below(c) }, win: gen_win(rng, m, cfg), front, back }
        }
        _ => Op::Mut(gen_mut_op(rng, fam, m, cfg)),
    };
    // arm an unwind fault that this operation can reach
    let mut fault = None;
    if cfg.fault_pm > 0 && cfg.profile != Profile::C12 && rng.below(1000) < cfg.fault_pm && op.lie() == Lie::Honest && !op.leaks() {
        let kinds: Vec<usize> = fault_kinds_for(&op, cfg.flavour).into_iter().filter(|&k| cfg.unwind_kinds[k]).collect();
        if !kinds.is_empty() {
            let kind = kinds[rng.below(kinds.len())];
            let n = est_calls(&op, kind, m);
            fault = Some((kind, rng.below(n as usize + 1) as u32));
        }
    }
    Step { op, fault }
}

/// Operations on which the crash-point sweep is worth running (they run caller code).
pub fn gen_sweep_op(rng: &mut Rng, m: &Model, cfg: &ArrayCfg) -> Op {
    let mut cfg2 = cfg.clone();
    cfg2.fault_pm = 0;
    cfg2.lies = false;
    cfg2.leaks = false;
    cfg2.invalid_pm = 0;
    cfg2.exact_cap_pm = 0;
    let fams = [F_INSERT_ROW, F_INSERT_COL, F_INSERT_ROW, F_INSERT_COL, F_REMOVE_COL, F_REMOVE_ROW, F_FILL, F_CLONE_FROM, F_SORT, F_CONSTRUCT, F_CLEAR, F_VIEW, F_WRITE];
    loop {
        let fam = fams[rng.below(fams.len())];
        let mut w = [0u32; N_FAM];
        w[fam] = 1;
        cfg2.weights = w;
        let st = gen_step(rng, m, &cfg2, true);
        if !fault_kinds_for(&st.op, cfg.flavour).is_empty() {
            return st.op;
        }
    }
}

pub fn sweep_kinds(op: &Op, flavour: Flavour) -> Vec<usize> {
    fault_kinds_for(op, flavour)
}
