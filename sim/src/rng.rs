//! The only source of randomness in the simulator: SplitMix64 seeding xoshiro256**.
//! Hand-written so that the stream is fixed forever (no dependency whose algorithm may change).

#[derive(Clone, Debug)]
pub struct Rng {
    s: [u64; 4],
}

pub fn splitmix(x: &mut u64) -> u64 {
    *x = x.wrapping_add(0x9E37_79B9_7F4A_7C15);
    let mut z = *x;
    z = (z ^ (z >> 30)).wrapping_mul(0xBF58_476D_1CE4_E5B9);
    z = (z ^ (z >> 27)).wrapping_mul(0x94D0_49BB_1331_11EB);
    z ^ (z >> 31)
}

/// Mix several integers into one seed (order-sensitive).
pub fn mix(parts: &[u64]) -> u64 {
    let mut h: u64 = 0x243F_6A88_85A3_08D3;
    for &p in parts {
        let mut x = h ^ p.wrapping_mul(0x9E37_79B9_7F4A_7C15);
        h = splitmix(&mut x);
    }
    h
}

/// FNV-1a over bytes; used for stable hashing of names and traces (never std's RandomState).
pub fn fnv(bytes: &[u8]) -> u64 {
    let mut h: u64 = 0xcbf2_9ce4_8422_2325;
    for &b in bytes {
        h ^= b as u64;
        h = h.wrapping_mul(0x0000_0100_0000_01B3);
    }
    h
}

impl Rng {
    pub fn new(seed: u64) -> Rng {
        let mut x = seed;
        let s = [splitmix(&mut x), splitmix(&mut x), splitmix(&mut x), splitmix(&mut x)];
        Rng { s }
    }

    pub fn next_u64(&mut self) -> u64 {
        let result = self.s[1].wrapping_mul(5).rotate_left(7).wrapping_mul(9);
        let t = self.s[1] << 17;
        self.s[2] ^= self.s[0];
        self.s[3] ^= self.s[1];
        self.s[1] ^= self.s[2];
        self.s[0] ^= self.s[3];
        self.s[2] ^= t;
        self.s[3] = self.s[3].rotate_left(45);
        result
    }

    /// Uniform in 0..n (n > 0). Plain modulo: the bias is irrelevant for n << 2^64.
    pub fn below(&mut self, n: usize) -> usize {
        debug_assert!(n > 0);
        (self.next_u64() % (n as u64)) as usize
    }

    /// Uniform in lo..=hi.
    pub fn range(&mut self, lo: usize, hi: usize) -> usize {
        lo + self.below(hi - lo + 1)
    }

    /// True with probability num/den.
    pub fn chance(&mut self, num: usize, den: usize) -> bool {
        self.below(den) < num
    }

    pub fn pick<T: Copy>(&mut self, xs: &[T]) -> T {
        xs[self.below(xs.len())]
    }

    /// Pick an index according to integer weights (at least one weight must be non-zero).
    pub fn weighted(&mut self, ws: &[u32]) -> usize {
        let total: u64 = ws.iter().map(|&w| w as u64).sum();
        debug_assert!(total > 0);
        let mut x = self.next_u64() % total;
        for (i, &w) in ws.iter().enumerate() {
            if x < w as u64 {
                return i;
            }
            x -= w as u64;
        }
        ws.len() - 1
    }
}
