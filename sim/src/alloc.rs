//! SimAlloc: the simulated global allocator.
//!
//! A wrapper around `System` that the simulator owns:
//!  * every block carries a header and position-dependent red zones in front of and behind the user area,
//!    verified on dealloc / realloc and, for the array's own buffer, after every step;
//!  * fresh memory is poisoned with 0xCD and freed memory with 0xDD, so that an element read
//!    from beyond `len` or after free fails its magic check;
//!  * the *mode* (drawn per run from the run's PRNG) decides whether growth moves the buffer:
//!    ForceMove (every realloc relocates), Slack (hidden slack, growth up to 2x never moves),
//!    System (whatever the platform allocator does);
//!  * single requests above 256 MiB are refused deterministically.
//!
//! It never allocates, never panics and keeps its state in atomics only.

use std::alloc::{GlobalAlloc, Layout, System};
use std::sync::atomic::{AtomicU64, AtomicU8, AtomicUsize, Ordering::Relaxed};

pub const MODE_SYSTEM: u8 = 0;
pub const MODE_FORCE_MOVE: u8 = 1;
pub const MODE_SLACK: u8 = 2;

const PREFIX: usize = 64;
const REAR: usize = 64;
const HDR_MAGIC: u64 = 0x51AD_A110_C0DE_F00D;
/// Red-zone bytes depend on their position inside the zone: a stray block copy whose *source* also
/// lies in a red zone (e.g. a compaction that reads and writes a few elements past the end) would
/// copy a constant pattern onto itself and go unnoticed.
#[inline]
fn rz(i: usize) -> u8 {
    ((i as u8).wrapping_mul(37)).wrapping_add(0x5D) | 0x80
}

unsafe fn fill_rz(p: *mut u8, n: usize) {
    for i in 0..n {
        p.add(i).write(rz(i));
    }
}

unsafe fn rz_intact(p: *const u8, n: usize) -> bool {
    for i in 0..n {
        if p.add(i).read() != rz(i) {
            return false;
        }
    }
    true
}
const FRESH: u8 = 0xCD;
const FREED: u8 = 0xDD;
const MAX_REQ: usize = 256 << 20;

static MODE: AtomicU8 = AtomicU8::new(MODE_SYSTEM);
/// 0 = none; otherwise a code describing the first red-zone violation seen since last take.
static VIOLATION: AtomicUsize = AtomicUsize::new(0);
pub static N_REALLOC_MOVED: AtomicU64 = AtomicU64::new(0);
pub static N_REALLOC_INPLACE: AtomicU64 = AtomicU64::new(0);
pub static N_ALLOC: AtomicU64 = AtomicU64::new(0);

pub const V_FRONT: usize = 1;
pub const V_REAR: usize = 2;
pub const V_HEADER: usize = 3;

pub fn set_mode(m: u8) {
    MODE.store(m, Relaxed);
}

pub fn mode() -> u8 {
    MODE.load(Relaxed)
}

/// Returns and clears the pending red-zone violation code (0 = none).
pub fn take_violation() -> usize {
    VIOLATION.swap(0, Relaxed)
}

pub fn violation_name(code: usize) -> &'static str {
    match code {
        V_FRONT => "heap underflow: bytes before the buffer were overwritten",
        V_REAR => "heap overflow: bytes after the buffer were overwritten",
        V_HEADER => "allocator header destroyed",
        _ => "none",
    }
}

pub struct SimAlloc;

#[inline]
fn instrumented(layout: &Layout) -> bool {
    !cfg!(miri) && layout.align() <= PREFIX
}

unsafe fn hdr(user: *mut u8) -> *mut u64 {
    user.sub(PREFIX) as *mut u64
}

unsafe fn lay_front(user: *mut u8, size: usize, cap: usize) {
    let h = hdr(user);
    h.write(HDR_MAGIC);
    h.add(1).write(size as u64);
    h.add(2).write(cap as u64);
    fill_rz(user.sub(PREFIX - 24), PREFIX - 24);
}

unsafe fn lay_rear(user: *mut u8, size: usize, cap: usize) {
    fill_rz(user.add(size), cap - size + REAR);
}

/// Verifies the block around `user`; returns 0 or a violation code.
unsafe fn verify(user: *mut u8) -> usize {
    let h = hdr(user);
    if h.read() != HDR_MAGIC {
        return V_HEADER;
    }
    let size = h.add(1).read() as usize;
    let cap = h.add(2).read() as usize;
    if size > cap || cap > MAX_REQ * 2 + 128 {
        return V_HEADER;
    }
    if !rz_intact(user.sub(PREFIX - 24), PREFIX - 24) {
        return V_FRONT;
    }
    if !rz_intact(user.add(size), cap - size + REAR) {
        return V_REAR;
    }
    0
}

fn note(code: usize) {
    if code != 0 {
        let _ = VIOLATION.compare_exchange(0, code, Relaxed, Relaxed);
    }
}

/// Check the red zones of the block whose user pointer is `p` (must come from this allocator,
/// with alignment <= 64). Used by the audit on the array's own buffer.
pub fn check_block(p: *const u8) -> usize {
    if cfg!(miri) || p.is_null() {
        return 0;
    }
    unsafe { verify(p as *mut u8) }
}

fn total(cap: usize) -> usize {
    PREFIX + cap + REAR
}

unsafe fn raw_alloc(size: usize, cap: usize, align: usize) -> *mut u8 {
    let l = Layout::from_size_align_unchecked(total(cap), align.max(16));
    let base = System.alloc(l);
    if base.is_null() {
        return base;
    }
    let user = base.add(PREFIX);
    lay_front(user, size, cap);
    lay_rear(user, size, cap);
    user
}

unsafe fn raw_free(user: *mut u8, align: usize) {
    let h = hdr(user);
    let cap = h.add(2).read() as usize;
    std::ptr::write_bytes(user, FREED, cap);
    h.write(0);
    let l = Layout::from_size_align_unchecked(total(cap), align.max(16));
    System.dealloc(user.sub(PREFIX), l);
}

fn cap_for(size: usize) -> usize {
    match MODE.load(Relaxed) {
        MODE_SLACK => size * 2 + 64,
        _ => size,
    }
}

unsafe impl GlobalAlloc for SimAlloc {
    unsafe fn alloc(&self, layout: Layout) -> *mut u8 {
        if !instrumented(&layout) {
            return System.alloc(layout);
        }
        if layout.size() > MAX_REQ {
            return std::ptr::null_mut();
        }
        N_ALLOC.fetch_add(1, Relaxed);
        let user = raw_alloc(layout.size(), cap_for(layout.size()), layout.align());
        if !user.is_null() {
            std::ptr::write_bytes(user, FRESH, layout.size());
        }
        user
    }

    unsafe fn alloc_zeroed(&self, layout: Layout) -> *mut u8 {
        if !instrumented(&layout) {
            return System.alloc_zeroed(layout);
        }
        if layout.size() > MAX_REQ {
            return std::ptr::null_mut();
        }
        N_ALLOC.fetch_add(1, Relaxed);
        let user = raw_alloc(layout.size(), cap_for(layout.size()), layout.align());
        if !user.is_null() {
            std::ptr::write_bytes(user, 0, layout.size());
        }
        user
    }

    unsafe fn dealloc(&self, ptr: *mut u8, layout: Layout) {
        if !instrumented(&layout) {
            return System.dealloc(ptr, layout);
        }
        let v = verify(ptr);
        note(v);
        if v == V_HEADER {
            // cannot trust the header: leak the block rather than free with a wrong layout
            return;
        }
        raw_free(ptr, layout.align());
    }

    unsafe fn realloc(&self, ptr: *mut u8, layout: Layout, new_size: usize) -> *mut u8 {
        if !instrumented(&layout) {
            return System.realloc(ptr, layout, new_size);
        }
        if new_size > MAX_REQ {
            return std::ptr::null_mut();
        }
        let v = verify(ptr);
        note(v);
        if v == V_HEADER {
            return std::ptr::null_mut();
        }
        let h = hdr(ptr);
        let old_size = h.add(1).read() as usize;
        let cap = h.add(2).read() as usize;
        let mode = MODE.load(Relaxed);
        if mode != MODE_FORCE_MOVE && new_size <= cap {
            // in place: grow into the slack or shrink
            if new_size > old_size {
                std::ptr::write_bytes(ptr.add(old_size), FRESH, new_size - old_size);
            }
            h.add(1).write(new_size as u64);
            lay_rear(ptr, new_size, cap);
            N_REALLOC_INPLACE.fetch_add(1, Relaxed);
            return ptr;
        }
        if mode == MODE_SYSTEM {
            // let the platform decide whether the block moves
            let a = layout.align().max(16);
            let old_l = Layout::from_size_align_unchecked(total(cap), a);
            let base = System.realloc(ptr.sub(PREFIX), old_l, total(new_size));
            if base.is_null() {
                return base;
            }
            let user = base.add(PREFIX);
            if new_size > old_size {
                std::ptr::write_bytes(user.add(old_size), FRESH, new_size - old_size);
            }
            lay_front(user, new_size, new_size);
            lay_rear(user, new_size, new_size);
            if user == ptr {
                N_REALLOC_INPLACE.fetch_add(1, Relaxed);
            } else {
                N_REALLOC_MOVED.fetch_add(1, Relaxed);
            }
            return user;
        }
        // move: allocate new, copy, poison and free old
        let user = raw_alloc(new_size, cap_for(new_size), layout.align());
        if user.is_null() {
            return user;
        }
        let keep = old_size.min(new_size);
        std::ptr::copy_nonoverlapping(ptr, user, keep);
        if new_size > keep {
            std::ptr::write_bytes(user.add(keep), FRESH, new_size - keep);
        }
        raw_free(ptr, layout.align());
        N_REALLOC_MOVED.fetch_add(1, Relaxed);
        user
    }
}
