//! The cursor engine (C08, C09, C10): one iterator obtained from an array or a (nested,
//! strided) window, driven by a seeded interleaving of a front client (next, nth, [i]), a back
//! client (next_back, nth_back) and an observer (len, size_hint, num_cols), checked call by
//! call against an ideal `VecDeque`. The interleaving of the two ends is the only "schedule"
//! the crate has. Mutable variants keep every yielded reference until the end of the run,
//! check that each points at exactly the expected cells (hence pairwise disjoint), then write
//! through each and compare the whole parent buffer with the model.

use crate::array_engine::IN_GUARDED;
use crate::rng::Rng;
use crate::steps::Win;
use serde::{Deserialize, Serialize};
use std::collections::{BTreeMap, VecDeque};
use std::panic::{catch_unwind, AssertUnwindSafe};
use toodee::{Cells, CellsMut, Col, ColMut, Rows, RowsMut, TooDee, TooDeeIterator, TooDeeOps, TooDeeOpsMut, TooDeeView, TooDeeViewMut};

#[derive(Clone, Debug, PartialEq, Eq, Serialize, Deserialize)]
pub enum Recv {
    /// the owned array itself
    Owned,
    /// toodee.view(w0).view(w1)...
    View { wins: Vec<Win> },
    /// toodee.view_mut(w0).view_mut(w1)...; with `last_shared` the last hop is `.view()` on the
    /// mutable view (the checked variant), giving a shared view
    ViewMut {
        wins: Vec<Win>,
        last_shared: bool,
        /// the (last) mutable view is converted with `TooDeeView::from(view_mut)` before the
        /// iterator is taken (shared iterators only)
        #[serde(default)]
        into_view: bool,
    },
    /// TooDeeView::new(C, R, &buf[..C*R+extra])
    SliceView { extra: usize },
    SliceViewMut { extra: usize },
}

#[derive(Clone, Copy, Debug, PartialEq, Eq, Serialize, Deserialize)]
pub enum IterKind {
    Rows,
    RowsMut,
    Col(usize),
    ColMut(usize),
    Cells,
    CellsMut,
    /// `(&x).into_iter()`
    RefIntoIter,
    /// `(&mut x).into_iter()`
    MutIntoIter,
}

impl IterKind {
    pub fn is_mut(self) -> bool {
        matches!(self, IterKind::RowsMut | IterKind::ColMut(_) | IterKind::CellsMut | IterKind::MutIntoIter)
    }
    pub fn name(self) -> &'static str {
        match self {
            IterKind::Rows => "rows",
            IterKind::RowsMut => "rows_mut",
            IterKind::Col(_) => "col",
            IterKind::ColMut(_) => "col_mut",
            IterKind::Cells => "cells",
            IterKind::CellsMut => "cells_mut",
            IterKind::RefIntoIter => "ref_into_iter",
            IterKind::MutIntoIter => "mut_into_iter",
        }
    }
}

#[derive(Clone, Copy, Debug, PartialEq, Eq, Serialize, Deserialize)]
pub enum Call {
    Next,
    NextBack,
    Nth(usize),
    NthBack(usize),
    Len,
    SizeHint,
    NumCols,
    Index(usize),
    IndexSet(usize),
}

#[derive(Clone, Copy, Debug, PartialEq, Eq, Serialize, Deserialize)]
pub enum Final {
    Drop,
    Count,
    Last,
    Fold,
    Rfold,
    Collect,
    RevCollect,
}

#[derive(Clone, Debug, PartialEq, Eq, Serialize, Deserialize)]
pub struct CursorTrace {
    pub cols: usize,
    pub rows: usize,
    pub receiver: Recv,
    pub iter: IterKind,
    pub calls: Vec<Call>,
    pub fin: Final,
    /// zero-sized cells (`TooDee<()>`): the only way to reach shapes whose row / cell counts
    /// approach usize::MAX; the ideal sequence is then kept as a pair of counters
    #[serde(default)]
    pub zst: bool,
}

#[derive(Clone, Debug, Serialize, Deserialize)]
pub struct CViol {
    pub kind: String,
    pub detail: String,
    pub step: usize,
    pub op: String,
}

#[derive(Default, Clone, Debug)]
pub struct CStats {
    pub calls: u64,
    pub yielded: u64,
    pub probes: BTreeMap<&'static str, u64>,
    pub receivers: BTreeMap<&'static str, u64>,
    pub iters: BTreeMap<&'static str, u64>,
    pub skipped: u64,
}

impl CStats {
    fn probe(&mut self, p: &'static str) {
        *self.probes.entry(p).or_insert(0) += 1;
    }
}

// ---------------------------------------------------------------------------------------------
// what iterators yield

pub trait Yield {
    fn vals(&self) -> Vec<u32>;
    /// address of the first element and number of elements
    fn addr(&self) -> (usize, usize);
    /// write fresh values through the reference (no-op for shared references)
    fn write(&mut self, next: &mut u32) -> Vec<u32>;
}

impl Yield for &[u32] {
    fn vals(&self) -> Vec<u32> {
        self.to_vec()
    }
    fn addr(&self) -> (usize, usize) {
        (self.as_ptr() as usize, self.len())
    }
    fn write(&mut self, _next: &mut u32) -> Vec<u32> {
        self.to_vec()
    }
}
impl Yield for &mut [u32] {
    fn vals(&self) -> Vec<u32> {
        self.to_vec()
    }
    fn addr(&self) -> (usize, usize) {
        (self.as_ptr() as usize, self.len())
    }
    fn write(&mut self, next: &mut u32) -> Vec<u32> {
        for x in self.iter_mut() {
            *x = *next;
            *next += 1;
        }
        self.to_vec()
    }
}
impl Yield for &u32 {
    fn vals(&self) -> Vec<u32> {
        vec![**self]
    }
    fn addr(&self) -> (usize, usize) {
        (*self as *const u32 as usize, 1)
    }
    fn write(&mut self, _next: &mut u32) -> Vec<u32> {
        vec![**self]
    }
}
impl Yield for &mut u32 {
    fn vals(&self) -> Vec<u32> {
        vec![**self]
    }
    fn addr(&self) -> (usize, usize) {
        (&**self as *const u32 as usize, 1)
    }
    fn write(&mut self, next: &mut u32) -> Vec<u32> {
        **self = *next;
        *next += 1;
        vec![**self]
    }
}

pub trait Cursor: Iterator + DoubleEndedIterator + ExactSizeIterator {
    fn t_num_cols(&self) -> Option<usize> {
        None
    }
    /// `self[i]` (may panic)
    fn index_val(&self, _i: usize) -> Option<(u32, usize)> {
        None
    }
    /// `self[i] = v` (may panic)
    fn index_set(&mut self, _i: usize, _v: u32) -> bool {
        false
    }
}
impl Cursor for Rows<'_, u32> {
    fn t_num_cols(&self) -> Option<usize> {
        Some(self.num_cols())
    }
}
impl Cursor for RowsMut<'_, u32> {
    fn t_num_cols(&self) -> Option<usize> {
        Some(self.num_cols())
    }
}
impl Cursor for Cells<'_, u32> {
    fn t_num_cols(&self) -> Option<usize> {
        Some(self.num_cols())
    }
}
impl Cursor for CellsMut<'_, u32> {
    fn t_num_cols(&self) -> Option<usize> {
        Some(self.num_cols())
    }
}
impl Cursor for Col<'_, u32> {
    fn index_val(&self, i: usize) -> Option<(u32, usize)> {
        let r = &self[i];
        Some((*r, r as *const u32 as usize))
    }
}
impl Cursor for ColMut<'_, u32> {
    fn index_val(&self, i: usize) -> Option<(u32, usize)> {
        let r = &self[i];
        Some((*r, r as *const u32 as usize))
    }
    fn index_set(&mut self, i: usize, v: u32) -> bool {
        self[i] = v;
        true
    }
}

// ---------------------------------------------------------------------------------------------
// the ideal sequence

#[derive(Clone, Debug)]
struct Ideal {
    /// index of the first cell in the base buffer
    base_idx: usize,
    /// number of cells
    n: usize,
}

/// Geometry of the receiver inside the base buffer.
#[derive(Clone, Copy, Debug)]
struct Geo {
    c0: usize,
    r0: usize,
    wc: usize,
    wr: usize,
    stride: usize,
}

fn ideal_for(kind: IterKind, g: Geo) -> VecDeque<Ideal> {
    let at = |c: usize, r: usize| (g.r0 + r) * g.stride + g.c0 + c;
    match kind {
        IterKind::Rows | IterKind::RowsMut => (0..g.wr).map(|r| Ideal { base_idx: at(0, r), n: g.wc }).collect(),
        IterKind::Col(c) | IterKind::ColMut(c) => (0..g.wr).map(|r| Ideal { base_idx: at(c, r), n: 1 }).collect(),
        _ => (0..g.wr).flat_map(|r| (0..g.wc).map(move |c| (c, r))).map(|(c, r)| Ideal { base_idx: at(c, r), n: 1 }).collect(),
    }
}

fn guard<R>(f: impl FnOnce() -> R) -> Result<R, String> {
    let depth = IN_GUARDED.with(|g| {
        let d = g.get();
        g.set(d + 1);
        d
    });
    let r = catch_unwind(AssertUnwindSafe(f));
    IN_GUARDED.with(|g| g.set(depth));
    r.map_err(|p| p.downcast_ref::<String>().cloned().or_else(|| p.downcast_ref::<&'static str>().map(|s| s.to_string())).unwrap_or_else(|| "<panic>".into()))
}

struct Ctx<'a> {
    base_ptr: usize,
    model: &'a mut Vec<u32>,
    fresh: &'a mut u32,
    stats: &'a mut CStats,
    num_cols: usize,
    is_mut: bool,
}

fn describe(x: &Option<(Vec<u32>, usize, usize)>) -> String {
    match x {
        None => "None".into(),
        Some((v, idx, n)) => format!("Some(cells {:?} at buffer index {} len {})", v, idx, n),
    }
}

/// Drive the iterator through the call sequence. Err((step, message)) on the first disagreement.
fn drive<I>(mut it: I, t: &CursorTrace, mut ideal: VecDeque<Ideal>, cx: &mut Ctx<'_>) -> Result<(), (usize, String)>
where
    I: Cursor,
    I::Item: Yield,
{
    let mut kept: Vec<(I::Item, Ideal)> = Vec::new();
    let base_ptr = cx.base_ptr;
    // compare one yielded item with the ideal element
    let check = |got: Option<I::Item>, want: Option<Ideal>, model: &Vec<u32>, kept: &mut Vec<(I::Item, Ideal)>, what: &str| -> Result<(), String> {
        let g = got.as_ref().map(|x| {
            let (a, n) = x.addr();
            (x.vals(), (a.wrapping_sub(base_ptr)) / 4, n)
        });
        let w = want.as_ref().map(|w| (model[w.base_idx..w.base_idx + w.n].to_vec(), w.base_idx, w.n));
        if g != w {
            // never keep a reference we cannot trust
            std::mem::forget(got);
            return Err(format!("{} returned {}, the ideal sequence gives {}", what, describe(&g), describe(&w)));
        }
        if let (Some(x), Some(w)) = (got, want) {
            kept.push((x, w));
        }
        Ok(())
    };
    for (i, call) in t.calls.iter().enumerate() {
        cx.stats.calls += 1;
        let len_before = ideal.len();
        match *call {
            Call::Next | Call::NextBack | Call::Nth(_) | Call::NthBack(_) => {
                let (what, want) = match *call {
                    Call::Next => ("next()".to_string(), ideal.pop_front()),
                    Call::NextBack => ("next_back()".to_string(), ideal.pop_back()),
                    Call::Nth(n) => {
                        if n >= ideal.len() {
                            ideal.clear();
                            (format!("nth({})", n), None)
                        } else {
                            ideal.drain(..n);
                            (format!("nth({})", n), ideal.pop_front())
                        }
                    }
                    Call::NthBack(n) => {
                        if n >= ideal.len() {
                            ideal.clear();
                            (format!("nth_back({})", n), None)
                        } else {
                            let keep = ideal.len() - n;
                            ideal.truncate(keep);
                            (format!("nth_back({})", n), ideal.pop_back())
                        }
                    }
                    _ => unreachable!(),
                };
                let got = guard(|| match *call {
                    Call::Next => it.next(),
                    Call::NextBack => it.next_back(),
                    Call::Nth(n) => it.nth(n),
                    Call::NthBack(n) => it.nth_back(n),
                    _ => unreachable!(),
                });
                match got {
                    Err(msg) => return Err((i, format!("{} panicked: {} (the ideal sequence of length {} does not)", what, msg, len_before))),
                    Ok(g) => {
                        if g.is_some() {
                            cx.stats.yielded += 1;
                        }
                        check(g, want, cx.model, &mut kept, &what).map_err(|m| (i, m))?;
                    }
                }
                match *call {
                    Call::Nth(n) | Call::NthBack(n) => {
                        if n > len_before && n < usize::MAX / 2 {
                            cx.stats.probe("nth_beyond_end");
                        }
                        if n >= usize::MAX / 2 {
                            cx.stats.probe("nth_enormous");
                        }
                        if n > 0 && n < len_before && cx.num_cols > 0 && matches!(t.iter, IterKind::Cells | IterKind::CellsMut | IterKind::RefIntoIter | IterKind::MutIntoIter) {
                            if n >= cx.num_cols {
                                cx.stats.probe("cells_nth_crossing_rows");
                            } else {
                                cx.stats.probe("cells_nth_within_row");
                            }
                        }
                    }
                    _ => {}
                }
            }
            Call::Len => match guard(|| it.len()) {
                Err(m) => return Err((i, format!("len() panicked: {}", m))),
                Ok(l) => {
                    if l != ideal.len() {
                        return Err((i, format!("len() = {}, the ideal sequence has {}", l, ideal.len())));
                    }
                }
            },
            Call::SizeHint => match guard(|| it.size_hint()) {
                Err(m) => return Err((i, format!("size_hint() panicked: {}", m))),
                Ok(h) => {
                    if h != (ideal.len(), Some(ideal.len())) {
                        return Err((i, format!("size_hint() = {:?}, the ideal sequence has {}", h, ideal.len())));
                    }
                }
            },
            Call::NumCols => {
                if let Some(nc) = it.t_num_cols() {
                    if nc != cx.num_cols {
                        return Err((i, format!("num_cols() = {}, expected {}", nc, cx.num_cols)));
                    }
                }
            }
            Call::Index(ix) => {
                let want = ideal.get(ix).cloned();
                match guard(|| it.index_val(ix)) {
                    Ok(None) => {}
                    Ok(Some((v, addr))) => {
                        let gi = addr.wrapping_sub(base_ptr) / 4;
                        match want {
                            None => return Err((i, format!("[{}] returned cell {} (buffer index {}) although only {} elements remain; it must panic", ix, v, gi, ideal.len()))),
                            Some(w) => {
                                if gi != w.base_idx || v != cx.model[w.base_idx] {
                                    return Err((i, format!("[{}] returned cell {} at buffer index {}, expected {} at {}", ix, v, gi, cx.model[w.base_idx], w.base_idx)));
                                }
                            }
                        }
                        if ix >= usize::MAX / 4 {
                            cx.stats.probe("index_enormous");
                        }
                    }
                    Err(m) => {
                        if want.is_some() {
                            return Err((i, format!("[{}] panicked ({}) although {} elements remain", ix, m, ideal.len())));
                        }
                        cx.stats.probe("index_out_of_range_rejected");
                    }
                }
            }
            Call::IndexSet(ix) => {
                if !cx.is_mut {
                    continue;
                }
                let want = ideal.get(ix).cloned();
                let v = *cx.fresh;
                *cx.fresh += 1;
                match guard(|| it.index_set(ix, v)) {
                    Ok(false) => {}
                    Ok(true) => match want {
                        None => return Err((i, format!("[{}] = v was accepted although only {} elements remain; it must panic", ix, ideal.len()))),
                        Some(w) => cx.model[w.base_idx] = v,
                    },
                    Err(m) => {
                        if want.is_some() {
                            return Err((i, format!("[{}] = v panicked ({}) although {} elements remain", ix, m, ideal.len())));
                        }
                    }
                }
            }
        }
    }
    // final consuming call
    let nstep = t.calls.len();
    let rest: Vec<Ideal> = ideal.iter().cloned().collect();
    let what = format!("{:?}", t.fin);
    let mut items: Vec<I::Item> = Vec::new();
    let mut want_items: Vec<Ideal> = Vec::new();
    match t.fin {
        Final::Drop => drop(it),
        Final::Count => match guard(|| it.count()) {
            Err(m) => return Err((nstep, format!("count() panicked: {}", m))),
            Ok(n) => {
                if n != rest.len() {
                    return Err((nstep, format!("count() = {}, the ideal sequence has {}", n, rest.len())));
                }
            }
        },
        Final::Last => match guard(|| it.last()) {
            Err(m) => return Err((nstep, format!("last() panicked: {}", m))),
            Ok(g) => check(g, rest.last().cloned(), cx.model, &mut kept, "last()").map_err(|m| (nstep, m))?,
        },
        Final::Fold | Final::Collect => {
            let r = guard(|| {
                if t.fin == Final::Fold {
                    it.fold(Vec::new(), |mut acc, x| {
                        acc.push(x);
                        acc
                    })
                } else {
                    it.collect::<Vec<_>>()
                }
            });
            match r {
                Err(m) => return Err((nstep, format!("{} panicked: {}", what, m))),
                Ok(v) => {
                    items = v;
                    want_items = rest.clone();
                }
            }
        }
        Final::Rfold | Final::RevCollect => {
            let r = guard(|| {
                if t.fin == Final::Rfold {
                    it.rfold(Vec::new(), |mut acc, x| {
                        acc.push(x);
                        acc
                    })
                } else {
                    it.rev().collect::<Vec<_>>()
                }
            });
            match r {
                Err(m) => return Err((nstep, format!("{} panicked: {}", what, m))),
                Ok(v) => {
                    items = v;
                    want_items = rest.iter().rev().cloned().collect();
                }
            }
        }
    }
    if matches!(t.fin, Final::Fold | Final::Collect | Final::Rfold | Final::RevCollect) {
        if items.len() != want_items.len() {
            let n = items.len();
            std::mem::forget(items);
            return Err((nstep, format!("{} produced {} items, the ideal sequence has {}", what, n, want_items.len())));
        }
        for (k, (x, w)) in items.into_iter().zip(want_items.into_iter()).enumerate() {
            check(Some(x), Some(w), cx.model, &mut kept, &format!("{} item {}", what, k)).map_err(|m| (nstep, m))?;
        }
    }
    // every kept reference points at exactly its expected cells (checked above): they are
    // pairwise disjoint iff the ideal elements are, which holds by construction unless an
    // element was yielded twice
    let mut seen = std::collections::BTreeSet::new();
    for (_, w) in &kept {
        if !seen.insert(w.base_idx) {
            return Err((nstep, format!("the element at buffer index {} was yielded twice", w.base_idx)));
        }
    }
    // write through every kept reference
    for (x, w) in kept.iter_mut() {
        let written = x.write(cx.fresh);
        if cx.is_mut {
            cx.model[w.base_idx..w.base_idx + w.n].copy_from_slice(&written);
        }
    }
    drop(kept);
    Ok(())
}

// ---------------------------------------------------------------------------------------------
// receivers

fn geo_of(t: &CursorTrace) -> Option<Geo> {
    let mut g = Geo { c0: 0, r0: 0, wc: t.cols, wr: t.rows, stride: t.cols };
    let wins: &[Win] = match &t.receiver {
        Recv::Owned | Recv::SliceView { .. } | Recv::SliceViewMut { .. } => &[],
        Recv::View { wins } | Recv::ViewMut { wins, .. } => wins,
    };
    // data length of the current receiver's slice (for the N1 exclusion)
    let mut data_len = t.cols * t.rows;
    for w in wins {
        if !(w.start.0 <= w.end.0 && w.start.1 <= w.end.1 && w.end.0 <= g.wc && w.end.1 <= g.wr) {
            return None;
        }
        let (mut c, mut r) = (w.end.0 - w.start.0, w.end.1 - w.start.1);
        if c == 0 || r == 0 {
            // N1 (unclaimed C03): a zero-extent window whose start lies beyond the parent's slice
            if w.start.1 * g.stride + w.start.0 > data_len {
                return None;
            }
            c = 0;
            r = 0;
        }
        g = Geo { c0: g.c0 + w.start.0, r0: g.r0 + w.start.1, wc: c, wr: r, stride: g.stride };
        data_len = if r == 0 { 0 } else { (r - 1) * g.stride + c };
    }
    Some(g)
}

fn col_rejected(r: Result<usize, String>, c: usize, g: Geo, cx: &mut Ctx<'_>) -> Result<(), (usize, String)> {
    match r {
        Ok(l) => Err((0, format!("col({}) on a receiver with {} columns returned an iterator of length {}; it must panic", c, g.wc, l))),
        Err(_) => {
            cx.stats.probe("col_out_of_range_rejected");
            Ok(())
        }
    }
}

fn shared_iter<A: TooDeeOps<u32>>(a: &A, t: &CursorTrace, g: Geo, cx: &mut Ctx<'_>) -> Result<(), (usize, String)> {
    if let IterKind::Col(c) = t.iter {
        if c >= g.wc {
            return col_rejected(guard(|| a.col(c).len()), c, g, cx);
        }
    }
    match t.iter {
        IterKind::Rows => drive(a.rows(), t, ideal_for(t.iter, g), cx),
        IterKind::Col(c) => drive(a.col(c), t, ideal_for(t.iter, g), cx),
        IterKind::Cells => drive(a.cells(), t, ideal_for(t.iter, g), cx),
        _ => unreachable!(),
    }
}

fn mut_iter<A: TooDeeOpsMut<u32>>(a: &mut A, t: &CursorTrace, g: Geo, cx: &mut Ctx<'_>) -> Result<(), (usize, String)> {
    if let IterKind::ColMut(c) = t.iter {
        if c >= g.wc {
            return col_rejected(guard(|| a.col_mut(c).len()), c, g, cx);
        }
    }
    match t.iter {
        IterKind::RowsMut => drive(a.rows_mut(), t, ideal_for(t.iter, g), cx),
        IterKind::ColMut(c) => drive(a.col_mut(c), t, ideal_for(t.iter, g), cx),
        IterKind::CellsMut => drive(a.cells_mut(), t, ideal_for(t.iter, g), cx),
        _ => unreachable!(),
    }
}

fn run_view(v: TooDeeView<'_, u32>, t: &CursorTrace, g: Geo, cx: &mut Ctx<'_>) -> Result<(), (usize, String)> {
    let v: TooDeeView<'_, u32> = v;
    match t.iter {
        IterKind::RefIntoIter => drive((&v).into_iter(), t, ideal_for(t.iter, g), cx),
        _ => shared_iter(&v, t, g, cx),
    }
}

fn run_view_mut(v: TooDeeViewMut<'_, u32>, t: &CursorTrace, g: Geo, cx: &mut Ctx<'_>) -> Result<(), (usize, String)> {
    // re-bind so that the view's lifetime parameter can shrink to the local borrow
    // (`impl IntoIterator for &'a mut TooDeeViewMut<'a, T>` needs both to be the same)
    let mut v: TooDeeViewMut<'_, u32> = v;
    match t.iter {
        IterKind::RefIntoIter => drive((&v).into_iter(), t, ideal_for(t.iter, g), cx),
        IterKind::MutIntoIter => drive((&mut v).into_iter(), t, ideal_for(t.iter, g), cx),
        k if k.is_mut() => mut_iter(&mut v, t, g, cx),
        _ => shared_iter(&v, t, g, cx),
    }
}

/// Execute one cursor trace. Ok(None) = skipped (the trace is not executable, e.g. after
/// minimisation made a window invalid).
pub fn exec(t: &CursorTrace, stats: &mut CStats) -> Result<bool, CViol> {
    // Every iterator call is guarded on its own. What is not - building the (valid) windows, the
    // view-to-view conversion, creating the iterator - must not panic either: a panic raised there
    // by the crate is a violation; one raised by the simulator's own code is a harness error.
    match catch_unwind(AssertUnwindSafe(|| exec_inner(t, stats))) {
        Ok(r) => r,
        Err(p) => {
            let file = crate::array_engine::LAST_PANIC_FILE.with(|f| f.borrow().clone());
            if file.starts_with("/repo/") {
                let msg = p.downcast_ref::<String>().cloned().or_else(|| p.downcast_ref::<&'static str>().map(|s| s.to_string())).unwrap_or_else(|| "<panic>".into());
                Err(CViol { kind: "setup_panic".into(), detail: format!("creating the receiver or the iterator panicked in {}: {}", file, msg), step: 0, op: t.iter.name().to_string() })
            } else {
                std::panic::resume_unwind(p)
            }
        }
    }
}

fn exec_inner(t: &CursorTrace, stats: &mut CStats) -> Result<bool, CViol> {
    if t.zst {
        return exec_zst(t, stats);
    }
    let g = match geo_of(t) {
        Some(g) => g,
        None => {
            stats.skipped += 1;
            return Ok(false);
        }
    };
    let wins_bad = match &t.receiver {
        Recv::View { wins } | Recv::ViewMut { wins, .. } => wins.is_empty() || wins.len() > 3,
        _ => false,
    };
    if wins_bad || (t.cols == 0) != (t.rows == 0) || t.cols.checked_mul(t.rows).map_or(true, |n| n > 4096) {
        stats.skipped += 1;
        return Ok(false);
    }
    let n = t.cols * t.rows;
    let extra = match t.receiver {
        Recv::SliceView { extra } | Recv::SliceViewMut { extra } => extra.min(64),
        _ => 0,
    };
    let mut model: Vec<u32> = (1..=(n + extra) as u32).collect();
    let mut fresh: u32 = 1_000_000;
    let is_mut = t.iter.is_mut();
    let mutable_recv = matches!(t.receiver, Recv::Owned | Recv::SliceViewMut { .. }) || matches!(t.receiver, Recv::ViewMut { last_shared: false, .. });
    if is_mut && !mutable_recv {
        stats.skipped += 1;
        return Ok(false);
    }
    *stats.receivers.entry(match &t.receiver {
        Recv::Owned => "owned",
        Recv::View { wins } => if wins.len() > 1 { "view_nested" } else { "view" },
        Recv::ViewMut { wins, last_shared, into_view } => if *last_shared { "view_of_view_mut" } else if *into_view && !t.iter.is_mut() { "view_from_view_mut" } else if wins.len() > 1 { "view_mut_nested" } else { "view_mut" },
        Recv::SliceView { .. } => "view_over_slice",
        Recv::SliceViewMut { .. } => "view_mut_over_slice",
    }).or_insert(0) += 1;
    *stats.iters.entry(t.iter.name()).or_insert(0) += 1;
    if g.stride > g.wc && g.wc > 0 {
        stats.probe("strided_window");
    }
    if g.wc == 1 {
        stats.probe("width_1");
    }
    if g.wr == 1 {
        stats.probe("height_1");
    }
    if g.wc == 0 {
        stats.probe("empty_receiver");
    }

    let result: Result<(), (usize, String)>;
    let final_buf: Vec<u32>;
    match &t.receiver {
        Recv::SliceView { .. } | Recv::SliceViewMut { .. } => {
            let mut buf: Vec<u32> = model.clone();
            let base_ptr = buf.as_ptr() as usize;
            let mut cx = Ctx { base_ptr, model: &mut model, fresh: &mut fresh, stats, num_cols: g.wc, is_mut };
            result = if let Recv::SliceView { .. } = t.receiver {
                let v = TooDeeView::new(t.cols, t.rows, &buf);
                match t.iter {
                    IterKind::RefIntoIter => drive((&v).into_iter(), t, ideal_for(t.iter, g), &mut cx),
                    _ => shared_iter(&v, t, g, &mut cx),
                }
            } else {
                let mut v = TooDeeViewMut::new(t.cols, t.rows, &mut buf);
                match t.iter {
                    IterKind::RefIntoIter => drive((&v).into_iter(), t, ideal_for(t.iter, g), &mut cx),
                    IterKind::MutIntoIter => drive((&mut v).into_iter(), t, ideal_for(t.iter, g), &mut cx),
                    k if k.is_mut() => mut_iter(&mut v, t, g, &mut cx),
                    _ => shared_iter(&v, t, g, &mut cx),
                }
            };
            final_buf = buf;
        }
        _ => {
            let mut arr: TooDee<u32> = TooDee::from_vec(t.cols, t.rows, model.clone());
            let base_ptr = arr.data().as_ptr() as usize;
            let mut cx = Ctx { base_ptr, model: &mut model, fresh: &mut fresh, stats, num_cols: g.wc, is_mut };
            result = match &t.receiver {
                Recv::Owned => match t.iter {
                    IterKind::RefIntoIter => drive((&arr).into_iter(), t, ideal_for(t.iter, g), &mut cx),
                    IterKind::MutIntoIter => drive((&mut arr).into_iter(), t, ideal_for(t.iter, g), &mut cx),
                    k if k.is_mut() => mut_iter(&mut arr, t, g, &mut cx),
                    _ => shared_iter(&arr, t, g, &mut cx),
                },
                Recv::View { wins } => {
                    let v0 = arr.view(wins[0].start, wins[0].end);
                    match wins.len() {
                        1 => run_view(v0, t, g, &mut cx),
                        2 => run_view(v0.view(wins[1].start, wins[1].end), t, g, &mut cx),
                        _ => {
                            let v1 = v0.view(wins[1].start, wins[1].end);
                            run_view(v1.view(wins[2].start, wins[2].end), t, g, &mut cx)
                        }
                    }
                }
                Recv::ViewMut { wins, last_shared, into_view } => {
                    let mut v0 = arr.view_mut(wins[0].start, wins[0].end);
                    let conv = *into_view && !t.iter.is_mut() && !*last_shared;
                    match (wins.len(), *last_shared) {
                        (1, _) if conv => run_view(TooDeeView::from(v0), t, g, &mut cx),
                        (2, false) if conv => run_view(TooDeeView::from(v0.view_mut(wins[1].start, wins[1].end)), t, g, &mut cx),
                        (1, _) => run_view_mut(v0, t, g, &mut cx),
                        (2, false) => run_view_mut(v0.view_mut(wins[1].start, wins[1].end), t, g, &mut cx),
                        (2, true) => run_view(v0.view(wins[1].start, wins[1].end), t, g, &mut cx),
                        (_, false) => {
                            let mut v1 = v0.view_mut(wins[1].start, wins[1].end);
                            run_view_mut(v1.view_mut(wins[2].start, wins[2].end), t, g, &mut cx)
                        }
                        (_, true) => {
                            let v1 = v0.view_mut(wins[1].start, wins[1].end);
                            run_view(v1.view(wins[2].start, wins[2].end), t, g, &mut cx)
                        }
                    }
                }
                _ => unreachable!(),
            };
            final_buf = arr.data().to_vec();
        }
    }
    let op = t.iter.name().to_string();
    if let Err((step, detail)) = result {
        let kind = if step >= t.calls.len() { "final" } else { "call" };
        return Err(CViol { kind: kind.into(), detail, step, op });
    }
    if final_buf != model {
        let diff: Vec<(usize, u32, u32)> = final_buf.iter().zip(model.iter()).enumerate().filter(|(_, (a, b))| a != b).map(|(i, (a, b))| (i, *a, *b)).take(6).collect();
        return Err(CViol { kind: "write_through".into(), detail: format!("after writing through the yielded references the buffer differs from the model at (index, real, model) {:?}", diff), step: t.calls.len(), op });
    }
    Ok(true)
}

// ---------------------------------------------------------------------------------------------
// generation

const HUGE: [usize; 3] = [usize::MAX, usize::MAX / 2 + 1, 1 << 32];

fn gen_valid_win(rng: &mut Rng, wc: usize, wr: usize) -> Win {
    if wc == 0 || wr == 0 {
        return Win { start: (0, 0), end: (0, 0) };
    }
    // mostly non-empty windows (interior or touching edges); sometimes width 1, height 1,
    // the full extent, or empty
    let (c0, c1, r0, r1);
    match rng.below(12) {
        0 => {
            c0 = rng.below(wc + 1);
            c1 = if rng.chance(1, 2) { c0 } else { rng.range(c0, wc) };
            r0 = rng.below(wr + 1);
            r1 = if c1 > c0 { r0 } else { rng.range(r0, wr) };
        }
        1 => {
            c0 = rng.below(wc);
            c1 = c0 + 1;
            r0 = rng.below(wr);
            r1 = rng.range(r0 + 1, wr);
        }
        2 => {
            r0 = rng.below(wr);
            r1 = r0 + 1;
            c0 = rng.below(wc);
            c1 = rng.range(c0 + 1, wc);
        }
        3 => {
            c0 = 0;
            c1 = wc;
            r0 = 0;
            r1 = wr;
        }
        _ => {
            // keep at least half of each extent, so that nested windows stay interesting
            let cw = rng.range((wc + 1) / 2, wc);
            let rh = rng.range((wr + 1) / 2, wr);
            c0 = rng.below(wc - cw + 1);
            c1 = c0 + cw;
            r0 = rng.below(wr - rh + 1);
            r1 = r0 + rh;
        }
    }
    Win { start: (c0, r0), end: (c1, r1) }
}

/// The argument of nth / nth_back / [i]: small values around the remaining length, and values
/// chosen from the actual stride so that n*stride wraps to a small in-range number.
fn gen_n(rng: &mut Rng, len: usize, stride: usize) -> usize {
    if rng.chance(1, 7) {
        // overflow provokers
        let q = (u128::from(u64::MAX) + 1 + stride as u128 - 1) / stride as u128; // ceil(2^64 / stride)
        let h = ((u128::from(u64::MAX) + 1) / 2 + stride as u128 - 1) / stride as u128; // ceil(2^63 / stride)
        return match rng.below(6) {
            0 => HUGE[rng.below(3)],
            // n*stride wraps to a value < stride (or just below 2^64)
            1 if stride > 1 => (q as usize).wrapping_add(rng.below(3)).wrapping_sub(1),
            2 if stride > 1 => (h as usize).wrapping_add(rng.below(3)).wrapping_sub(1),
            // wraps to small + a few rows
            3 if stride > 1 => (q as usize).wrapping_add(rng.below(len + 2)),
            4 if stride > 1 => (q as usize).wrapping_mul(rng.range(2, 5)).wrapping_add(rng.below(len + 2)),
            _ => HUGE[rng.below(3)].wrapping_sub(rng.below(3)),
        };
    }
    match rng.below(10) {
        0 => 0,
        1 => 1,
        2 => len.saturating_sub(1),
        3 => len,
        4 => len + 1,
        // overshoot by up to a couple of rows' worth
        5 => len + rng.below(2 * stride.min(64) + 2),
        _ => {
            if rng.chance(1, 2) { rng.below(3) } else { rng.below(len + 2) }
        }
    }
}

pub fn gen_trace(rng: &mut Rng, prop: &str, thorough: bool) -> CursorTrace {
    // now and then a much larger shape
    let max_dim = if rng.chance(1, 64) { 40 } else if thorough { 12 } else { 8 };
    let (cols, rows) = match rng.below(16) {
        0 => (0, 0),
        1 => (1, rng.range(1, max_dim)),
        2 => (rng.range(1, max_dim), 1),
        _ => (rng.range(1, max_dim), rng.range(2, max_dim)),
    };
    // receiver
    let nest = match rng.below(6) {
        0 | 1 | 2 => 1,
        3 | 4 => 2,
        _ => 3,
    };
    let mut wins = Vec::new();
    let (mut wc, mut wr) = (cols, rows);
    let mut data_len = cols * rows;
    for _ in 0..nest {
        let mut w;
        let mut tries = 0;
        loop {
            w = gen_valid_win(rng, wc, wr);
            let empty = w.start.0 == w.end.0 || w.start.1 == w.end.1;
            tries += 1;
            if !(empty && w.start.1 * cols + w.start.0 > data_len) || tries > 20 {
                break;
            }
        }
        if w.start.0 == w.end.0 || w.start.1 == w.end.1 {
            if w.start.1 * cols + w.start.0 > data_len {
                w = Win { start: (0, 0), end: (0, 0) };
            }
            wc = 0;
            wr = 0;
            data_len = 0;
        } else {
            wc = w.end.0 - w.start.0;
            wr = w.end.1 - w.start.1;
            data_len = (wr - 1) * cols + wc;
        }
        wins.push(w);
    }
    let want_mut = rng.chance(1, 2);
    let receiver = match rng.below(10) {
        0 | 1 | 2 => Recv::Owned,
        3 => {
            if want_mut { Recv::SliceViewMut { extra: rng.below(4) } } else { Recv::SliceView { extra: rng.below(4) } }
        }
        4 | 5 | 6 => {
            if want_mut { Recv::ViewMut { wins: wins.clone(), last_shared: false, into_view: false } } else { Recv::View { wins: wins.clone() } }
        }
        _ => {
            // shared iterators over a mutable view: through a shared sub-view of it, or after
            // converting it with `TooDeeView::from`
            let conv = !want_mut && rng.chance(1, 2);
            Recv::ViewMut { wins: wins.clone(), last_shared: wins.len() > 1 && !want_mut && !conv, into_view: conv }
        }
    };
    let (wc, wr) = match &receiver {
        Recv::Owned | Recv::SliceView { .. } | Recv::SliceViewMut { .. } => (cols, rows),
        _ => (wc, wr),
    };
    let mutable_recv = matches!(receiver, Recv::Owned | Recv::SliceViewMut { .. }) || matches!(receiver, Recv::ViewMut { last_shared: false, .. });
    let use_mut = want_mut && mutable_recv;
    let iter = match prop {
        "C08" => if use_mut { IterKind::RowsMut } else { IterKind::Rows },
        "C09" => {
            // col(c) with c out of range must be rejected: covered by a dedicated probe below
            let c = if wc == 0 || rng.chance(1, 40) { *[wc, wc + 1, usize::MAX, usize::MAX / 2 + 1].get(rng.below(4)).unwrap() } else { rng.below(wc) };
            if use_mut { IterKind::ColMut(c) } else { IterKind::Col(c) }
        }
        _ => match (use_mut, rng.below(3)) {
            (true, 0) => IterKind::MutIntoIter,
            (true, _) => IterKind::CellsMut,
            (false, 0) => IterKind::RefIntoIter,
            (false, _) => IterKind::Cells,
        },
    };
    // the ideal length and the step between consecutive elements
    let (mut len, stride) = match iter {
        IterKind::Rows | IterKind::RowsMut => (wr, cols.max(1)),
        IterKind::Col(c) | IterKind::ColMut(c) => (if c >= wc { 0 } else { wr }, cols.max(1)),
        _ => (wc * wr, cols.max(1)),
    };
    let is_cells = !matches!(iter, IterKind::Rows | IterKind::RowsMut | IterKind::Col(_) | IterKind::ColMut(_));
    let n_calls = if thorough { rng.range(1, 28) } else { rng.range(1, 16) };
    let mut calls = Vec::new();
    // swarm: which call kinds are enabled in this run
    let w_next = rng.range(2, 6) as u32;
    let w_back = rng.range(0, 6) as u32;
    let w_nth = rng.range(0, 3) as u32;
    let w_nth_back = rng.range(0, 3) as u32;
    let w_obs = rng.range(0, 2) as u32;
    let w_idx = if matches!(iter, IterKind::Col(_) | IterKind::ColMut(_)) { rng.range(0, 3) as u32 } else { 0 };
    for _ in 0..n_calls {
        let k = rng.weighted(&[w_next, w_back, w_nth, w_nth_back, w_obs, w_idx]);
        let call = match k {
            0 => Call::Next,
            1 => Call::NextBack,
            2 | 3 => {
                // for cell iterators the interesting jumps are relative to the row width
                let n = if is_cells && wc > 0 && rng.chance(1, 2) {
                    let rows_left = len / wc;
                    match rng.below(6) {
                        0 => wc,
                        1 => wc - 1,
                        2 => wc * rng.below(rows_left + 1),
                        3 => (wc * rng.below(rows_left + 1)).saturating_sub(1),
                        4 => wc * rng.below(rows_left + 1) + 1,
                        _ => rng.below(wc + 1),
                    }
                } else {
                    gen_n(rng, len, if is_cells { wc.max(1) } else { stride })
                };
                if k == 2 { Call::Nth(n) } else { Call::NthBack(n) }
            }
            4 => *[Call::Len, Call::SizeHint, Call::NumCols].get(rng.below(3)).unwrap(),
            _ => {
                let i = gen_n(rng, len, stride);
                if matches!(iter, IterKind::ColMut(_)) && rng.chance(1, 2) { Call::IndexSet(i) } else { Call::Index(i) }
            }
        };
        match call {
            Call::Next | Call::NextBack => len = len.saturating_sub(1),
            Call::Nth(n) | Call::NthBack(n) => len = if n >= len { 0 } else { len - n - 1 },
            _ => {}
        }
        calls.push(call);
    }
    let fin = *[Final::Drop, Final::Count, Final::Last, Final::Fold, Final::Rfold, Final::Collect, Final::RevCollect].get(rng.below(7)).unwrap();
    CursorTrace { cols, rows, receiver, iter, calls, fin, zst: false }
}


// ---------------------------------------------------------------------------------------------
// zero-sized cells: giant shapes

trait ZItem {
    fn n(&self) -> usize;
}
impl ZItem for &[()] {
    fn n(&self) -> usize {
        self.len()
    }
}
impl ZItem for &mut [()] {
    fn n(&self) -> usize {
        self.len()
    }
}
impl ZItem for &() {
    fn n(&self) -> usize {
        1
    }
}
impl ZItem for &mut () {
    fn n(&self) -> usize {
        1
    }
}

trait ZCursor: Iterator + DoubleEndedIterator + ExactSizeIterator {
    fn z_num_cols(&self) -> Option<usize> {
        None
    }
    /// `self[i]` exists? (None = not indexable)
    fn z_index(&self, _i: usize) -> Option<()> {
        None
    }
}
impl ZCursor for Rows<'_, ()> {
    fn z_num_cols(&self) -> Option<usize> {
        Some(self.num_cols())
    }
}
impl ZCursor for RowsMut<'_, ()> {
    fn z_num_cols(&self) -> Option<usize> {
        Some(self.num_cols())
    }
}
impl ZCursor for Cells<'_, ()> {
    fn z_num_cols(&self) -> Option<usize> {
        Some(self.num_cols())
    }
}
impl ZCursor for CellsMut<'_, ()> {
    fn z_num_cols(&self) -> Option<usize> {
        Some(self.num_cols())
    }
}
impl ZCursor for Col<'_, ()> {
    fn z_index(&self, i: usize) -> Option<()> {
        let _: &() = &self[i];
        Some(())
    }
}
impl ZCursor for ColMut<'_, ()> {
    fn z_index(&self, i: usize) -> Option<()> {
        let _: &() = &self[i];
        Some(())
    }
}

/// Geometry in u128 (products of giant dimensions must not wrap in the oracle).
fn zgeo(t: &CursorTrace) -> Option<(u128, u128)> {
    let (mut wc, mut wr) = (t.cols as u128, t.rows as u128);
    let stride = t.cols as u128;
    let mut data_len = wc * wr;
    let wins: &[Win] = match &t.receiver {
        Recv::Owned => &[],
        Recv::View { wins } | Recv::ViewMut { wins, .. } => wins,
        _ => return None,
    };
    for w in wins {
        let (s0, s1, e0, e1) = (w.start.0 as u128, w.start.1 as u128, w.end.0 as u128, w.end.1 as u128);
        if !(s0 <= e0 && s1 <= e1 && e0 <= wc && e1 <= wr) {
            return None;
        }
        let (mut c, mut r) = (e0 - s0, e1 - s1);
        if c == 0 || r == 0 {
            if s1 * stride + s0 > data_len {
                return None; // N1 (unclaimed C03)
            }
            c = 0;
            r = 0;
        }
        wc = c;
        wr = r;
        data_len = if r == 0 { 0 } else { (r - 1) * stride + c };
    }
    Some((wc, wr))
}

fn drive_zst<I>(mut it: I, t: &CursorTrace, total: u128, item_len: usize, num_cols: usize, stats: &mut CStats) -> Result<(), (usize, String)>
where
    I: ZCursor,
    I::Item: ZItem,
{
    // the ideal sequence: `rem` elements remain (all elements are indistinguishable)
    let mut rem: u128 = total;
    for (i, call) in t.calls.iter().enumerate() {
        stats.calls += 1;
        match *call {
            Call::Next | Call::NextBack | Call::Nth(_) | Call::NthBack(_) => {
                let (what, want_some) = match *call {
                    Call::Next | Call::NextBack => {
                        let some = rem > 0;
                        rem = rem.saturating_sub(1);
                        (if matches!(call, Call::Next) { "next()".to_string() } else { "next_back()".to_string() }, some)
                    }
                    Call::Nth(n) | Call::NthBack(n) => {
                        let some = (n as u128) < rem;
                        rem = if some { rem - n as u128 - 1 } else { 0 };
                        (format!("{}({})", if matches!(call, Call::Nth(_)) { "nth" } else { "nth_back" }, n), some)
                    }
                    _ => unreachable!(),
                };
                let got = guard(|| match *call {
                    Call::Next => it.next(),
                    Call::NextBack => it.next_back(),
                    Call::Nth(n) => it.nth(n),
                    Call::NthBack(n) => it.nth_back(n),
                    _ => unreachable!(),
                }.map(|x| x.n()));
                match got {
                    Err(m) => return Err((i, format!("{} panicked: {} (zero-sized cells; the ideal sequence does not)", what, m))),
                    Ok(g) => {
                        let want = if want_some { Some(item_len) } else { None };
                        if g != want {
                            return Err((i, format!("{} returned {:?} (length of the yielded item), the ideal sequence gives {:?}; {} elements should remain", what, g, want, rem)));
                        }
                        if g.is_some() {
                            stats.yielded += 1;
                        }
                    }
                }
            }
            Call::Len | Call::SizeHint => match guard(|| (it.len(), it.size_hint())) {
                Err(m) => return Err((i, format!("len()/size_hint() panicked: {} ({} elements remain)", m, rem))),
                Ok((l, h)) => {
                    if l as u128 != rem || h != (rem as usize, Some(rem as usize)) {
                        return Err((i, format!("len() = {}, size_hint() = {:?}, the ideal sequence has {}", l, h, rem)));
                    }
                }
            },
            Call::NumCols => {
                if let Some(nc) = it.z_num_cols() {
                    if nc != num_cols {
                        return Err((i, format!("num_cols() = {}, expected {}", nc, num_cols)));
                    }
                }
            }
            Call::Index(ix) | Call::IndexSet(ix) => match guard(|| it.z_index(ix)) {
                Ok(None) => {}
                Ok(Some(())) => {
                    if ix as u128 >= rem {
                        return Err((i, format!("[{}] succeeded although only {} elements remain; it must panic", ix, rem)));
                    }
                }
                Err(m) => {
                    if (ix as u128) < rem {
                        return Err((i, format!("[{}] panicked ({}) although {} elements remain", ix, m, rem)));
                    }
                }
            },
        }
    }
    let nstep = t.calls.len();
    match t.fin {
        Final::Last => match guard(|| it.last().map(|x| x.n())) {
            Err(m) => return Err((nstep, format!("last() panicked: {}", m))),
            Ok(g) => {
                let want = if rem > 0 { Some(item_len) } else { None };
                if g != want {
                    return Err((nstep, format!("last() returned {:?}, the ideal sequence gives {:?}", g, want)));
                }
            }
        },
        // count() / folds would walk up to 2^64 elements: only the O(1) finals are used here
        _ => drop(it),
    }
    stats.probe("zst_giant_run");
    Ok(())
}

fn exec_zst(t: &CursorTrace, stats: &mut CStats) -> Result<bool, CViol> {
    let dims_ok = (t.cols == 0) == (t.rows == 0) && t.cols.checked_mul(t.rows).is_some();
    let (wc, wr) = match zgeo(t) {
        Some(g) if dims_ok => g,
        _ => {
            stats.skipped += 1;
            return Ok(false);
        }
    };
    let wins_bad = match &t.receiver {
        Recv::View { wins } | Recv::ViewMut { wins, .. } => wins.is_empty() || wins.len() > 3,
        _ => false,
    };
    let mutable_recv = matches!(t.receiver, Recv::Owned) || matches!(t.receiver, Recv::ViewMut { last_shared: false, .. });
    if wins_bad || (t.iter.is_mut() && !mutable_recv) || matches!(t.iter, IterKind::RefIntoIter | IterKind::MutIntoIter) {
        stats.skipped += 1;
        return Ok(false);
    }
    *stats.iters.entry(t.iter.name()).or_insert(0) += 1;
    *stats.receivers.entry("zero_sized_cells").or_insert(0) += 1;
    let (total, item_len): (u128, usize) = match t.iter {
        IterKind::Rows | IterKind::RowsMut => (wr, wc as usize),
        IterKind::Col(c) | IterKind::ColMut(c) => (if (c as u128) < wc { wr } else { 0 }, 1),
        _ => (wc * wr, 1),
    };
    let col_oob = matches!(t.iter, IterKind::Col(c) | IterKind::ColMut(c) if c as u128 >= wc);
    let num_cols = wc as usize;
    let mut arr: TooDee<()> = TooDee::init(t.cols, t.rows, ());
    fn shared<A: TooDeeOps<()>>(a: &A, t: &CursorTrace, total: u128, item_len: usize, num_cols: usize, col_oob: bool, stats: &mut CStats) -> Result<(), (usize, String)> {
        match t.iter {
            IterKind::Rows => drive_zst(a.rows(), t, total, item_len, num_cols, stats),
            IterKind::Col(c) => {
                if col_oob {
                    return match guard(|| a.col(c).len()) {
                        Ok(l) => Err((0, format!("col({}) out of range returned an iterator of length {}; it must panic", c, l))),
                        Err(_) => Ok(()),
                    };
                }
                drive_zst(a.col(c), t, total, item_len, num_cols, stats)
            }
            _ => drive_zst(a.cells(), t, total, item_len, num_cols, stats),
        }
    }
    fn mutable<A: TooDeeOpsMut<()>>(a: &mut A, t: &CursorTrace, total: u128, item_len: usize, num_cols: usize, col_oob: bool, stats: &mut CStats) -> Result<(), (usize, String)> {
        match t.iter {
            IterKind::RowsMut => drive_zst(a.rows_mut(), t, total, item_len, num_cols, stats),
            IterKind::ColMut(c) => {
                if col_oob {
                    return match guard(|| a.col_mut(c).len()) {
                        Ok(l) => Err((0, format!("col_mut({}) out of range returned an iterator of length {}; it must panic", c, l))),
                        Err(_) => Ok(()),
                    };
                }
                drive_zst(a.col_mut(c), t, total, item_len, num_cols, stats)
            }
            _ => drive_zst(a.cells_mut(), t, total, item_len, num_cols, stats),
        }
    }
    let m = t.iter.is_mut();
    let result = match &t.receiver {
        Recv::Owned => if m { mutable(&mut arr, t, total, item_len, num_cols, col_oob, stats) } else { shared(&arr, t, total, item_len, num_cols, col_oob, stats) },
        Recv::View { wins } => {
            let v0 = arr.view(wins[0].start, wins[0].end);
            match wins.len() {
                1 => shared(&v0, t, total, item_len, num_cols, col_oob, stats),
                2 => shared(&v0.view(wins[1].start, wins[1].end), t, total, item_len, num_cols, col_oob, stats),
                _ => {
                    let v1 = v0.view(wins[1].start, wins[1].end);
                    shared(&v1.view(wins[2].start, wins[2].end), t, total, item_len, num_cols, col_oob, stats)
                }
            }
        }
        Recv::ViewMut { wins, last_shared, .. } => {
            let mut v0 = arr.view_mut(wins[0].start, wins[0].end);
            match (wins.len(), *last_shared) {
                (1, _) => if m { mutable(&mut v0, t, total, item_len, num_cols, col_oob, stats) } else { shared(&v0, t, total, item_len, num_cols, col_oob, stats) },
                (2, false) => {
                    let mut v1 = v0.view_mut(wins[1].start, wins[1].end);
                    if m { mutable(&mut v1, t, total, item_len, num_cols, col_oob, stats) } else { shared(&v1, t, total, item_len, num_cols, col_oob, stats) }
                }
                (2, true) => shared(&v0.view(wins[1].start, wins[1].end), t, total, item_len, num_cols, col_oob, stats),
                (_, false) => {
                    let mut v1 = v0.view_mut(wins[1].start, wins[1].end);
                    let mut v2 = v1.view_mut(wins[2].start, wins[2].end);
                    if m { mutable(&mut v2, t, total, item_len, num_cols, col_oob, stats) } else { shared(&v2, t, total, item_len, num_cols, col_oob, stats) }
                }
                (_, true) => {
                    let v1 = v0.view_mut(wins[1].start, wins[1].end);
                    shared(&v1.view(wins[2].start, wins[2].end), t, total, item_len, num_cols, col_oob, stats)
                }
            }
        }
        _ => unreachable!(),
    };
    match result {
        Ok(()) => Ok(true),
        Err((step, detail)) => Err(CViol { kind: if step >= t.calls.len() { "final".into() } else { "call".into() }, detail, step, op: format!("{}(zero-sized)", t.iter.name()) }),
    }
}

/// A run over zero-sized cells with a giant (or ordinary) shape.
pub fn gen_trace_zst(rng: &mut Rng, prop: &str) -> CursorTrace {
    const M: usize = usize::MAX;
    let shapes: [(usize, usize); 14] = [(M, 1), (1, M), (M / 3, 3), (3, M / 3), (M / 5, 5), (1 << 32, 1 << 16), (1 << 16, 1 << 32), (M / 2, 2), (2, M / 2), (1 << 63, 1), (1, 1 << 63), (1 << 32, (1 << 32) - 1), (7, 9), (M / 7, 7)];
    let (cols, rows) = shapes[rng.below(shapes.len())];
    // windows: coordinates near the ends, the middle, or tiny
    let pick = |rng: &mut Rng, hi: usize| -> usize {
        match rng.below(7) {
            0 => 0,
            1 => hi,
            2 => hi - hi.min(1),
            3 => hi / 2,
            4 => hi.min(rng.below(5)),
            5 => hi - hi.min(rng.below(5)),
            _ => if hi == M { rng.next_u64() as usize } else { (rng.next_u64() % (hi as u64 + 1)) as usize },
        }
    };
    let n_wins = rng.below(3);
    let mut wins = Vec::new();
    let (mut wc, mut wr) = (cols, rows);
    for _ in 0..n_wins {
        if wc == 0 {
            break;
        }
        let (a, b) = (pick(rng, wc), pick(rng, wc));
        let (c, d) = (pick(rng, wr), pick(rng, wr));
        let (c0, c1) = (a.min(b), a.max(b));
        let (r0, r1) = (c.min(d), c.max(d));
        // keep the windows non-empty (empty ones are exercised by the ordinary runs)
        let (c0, c1) = if c0 == c1 { (c0 - c0.min(1), c1.max(1).min(wc)) } else { (c0, c1) };
        let (r0, r1) = if r0 == r1 { (r0 - r0.min(1), r1.max(1).min(wr)) } else { (r0, r1) };
        if c0 == c1 || r0 == r1 {
            break;
        }
        wins.push(Win { start: (c0, r0), end: (c1, r1) });
        wc = c1 - c0;
        wr = r1 - r0;
    }
    let want_mut = rng.chance(1, 2);
    let receiver = if wins.is_empty() {
        Recv::Owned
    } else if want_mut || rng.chance(1, 3) {
        Recv::ViewMut { wins: wins.clone(), last_shared: false, into_view: false }
    } else {
        Recv::View { wins: wins.clone() }
    };
    let mutable_recv = !matches!(receiver, Recv::View { .. });
    let use_mut = want_mut && mutable_recv;
    let iter = match prop {
        "C08" => if use_mut { IterKind::RowsMut } else { IterKind::Rows },
        "C09" => {
            let c = match rng.below(6) {
                0 => 0,
                1 => wc - 1,
                2 => wc,
                _ => pick(rng, wc - 1),
            };
            if use_mut { IterKind::ColMut(c) } else { IterKind::Col(c) }
        }
        _ => if use_mut { IterKind::CellsMut } else { IterKind::Cells },
    };
    let mut len: u128 = match iter {
        IterKind::Rows | IterKind::RowsMut => wr as u128,
        IterKind::Col(c) | IterKind::ColMut(c) => if c < wc { wr as u128 } else { 0 },
        _ => wc as u128 * wr as u128,
    };
    let stride = cols.max(1);
    let n_calls = rng.range(1, 14);
    let mut calls = Vec::new();
    for _ in 0..n_calls {
        let l = len.min(M as u128) as usize;
        let n = match rng.below(12) {
            0 => 0,
            1 => 1,
            2 => l.saturating_sub(1),
            3 => l,
            4 => l.saturating_add(1),
            5 => l / 2,
            6 => M,
            7 => M / stride,
            8 => (M / stride).saturating_add(1),
            9 => (M / stride).saturating_sub(1),
            10 => l.saturating_sub(rng.below(4)),
            _ => rng.below(6),
        };
        let call = match rng.below(9) {
            0 | 1 => Call::Next,
            2 | 3 => Call::NextBack,
            4 => Call::Nth(n),
            5 => Call::NthBack(n),
            6 => Call::Len,
            7 => if rng.chance(1, 2) { Call::SizeHint } else { Call::NumCols },
            _ => Call::Index(n),
        };
        match call {
            Call::Next | Call::NextBack => len = len.saturating_sub(1),
            Call::Nth(n) | Call::NthBack(n) => len = if (n as u128) >= len { 0 } else { len - n as u128 - 1 },
            _ => {}
        }
        calls.push(call);
    }
    let fin = if rng.chance(1, 2) { Final::Last } else { Final::Drop };
    CursorTrace { cols, rows, receiver, iter, calls, fin, zst: true }
}
