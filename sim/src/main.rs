//! toodee-sim: deterministic simulation with fault injection for the `toodee` crate.
//!
//! Subcommands (used by /verif/check):
//!   worker  <prop> <tier> <seed> <profile-tag> <start> <end> <hashfile>   run a range of seeded runs
//!   journal <prop> <tier> <seed> <profile-tag> <run> <journalfile>        re-run one run, journaling each step before it executes
//!   exec    <tracefile>                                                    execute an explicit trace (replay / minimisation)
//!   distinct <hashfile>...                                                 count distinct u64 hashes in binary files

#[cfg(not(miri))]
#[global_allocator]
static GLOBAL: alloc::SimAlloc = alloc::SimAlloc;

mod alloc;
mod array_engine;
mod cursor;
mod elem;
mod gen;
mod giant;
mod model;
mod rng;
mod runner;
mod serde_engine;
mod steps;

use array_engine::{RunStats, Viol};
use elem::*;
use gen::*;
use rng::{fnv, mix, Rng};
use serde::{Deserialize, Serialize};
use std::collections::{BTreeMap, BTreeSet};
use std::io::Write;

/// What a replay file / exec input contains.
#[derive(Serialize, Deserialize, Clone, Debug)]
pub struct TraceFile {
    pub engine: String,
    pub property: String,
    #[serde(default)]
    pub build: String,
    #[serde(default)]
    pub seed: u64,
    #[serde(default)]
    pub run: u64,
    #[serde(default)]
    pub violation: Option<Viol>,
    pub trace: serde_json::Value,
}

#[derive(Default)]
struct Agg {
    runs: u64,
    evaluations: u64,
    nontrivial: u64,
    hashes: BTreeSet<u64>,
    stats: RunStats,
    foreign: BTreeMap<String, u64>,
    owned_violations: u64,
    samples: Vec<serde_json::Value>,
    flavours: BTreeMap<String, u64>,
    alloc_modes: [u64; 3],
    fault_runs: u64,
    sweeps: u64,
    sweep_points: u64,
}

fn merge_stats(a: &mut RunStats, b: &RunStats) {
    a.steps += b.steps;
    a.accepted_mutations += b.accepted_mutations;
    a.rejected += b.rejected;
    a.skipped += b.skipped;
    a.armed_not_reached += b.armed_not_reached;
    a.lies += b.lies;
    a.leaks += b.leaks;
    for k in 0..N_KINDS {
        a.fired[k] += b.fired[k];
        a.calls[k] += b.calls[k];
    }
    for (k, v) in &b.probes {
        *a.probes.entry(k).or_insert(0) += v;
    }
    a.states.extend(b.states.iter().copied());
    a.max_len = a.max_len.max(b.max_len);
}

/// Which violations belong to which property (see DESIGN.md section 3.9).
fn owned(profile: Profile, v: &Viol) -> bool {
    let k = v.kind.as_str();
    let insert_op = matches!(v.op.as_str(), "insert_row" | "push_row" | "insert_col" | "push_col");
    let remove_op = matches!(v.op.as_str(), "remove_row" | "pop_row" | "remove_col" | "pop_col");
    match profile {
        Profile::C01 => !v.after_fault && matches!(k, "shape" | "lens" | "cells" | "cells_after_reject" | "verdict" | "audit_panic" | "redzone" | "crash"),
        Profile::C05 => matches!(k, "ledger" | "leak" | "redzone" | "provenance" | "crash"),
        // C06 / C07 speak about placement, the drain's items and the rejection of bad arguments:
        // iterator length reports (lens) and drop accounting (ledger, leak) belong to C01 / C05
        Profile::C06 => !v.after_fault && insert_op && matches!(k, "shape" | "cells" | "verdict" | "audit_panic" | "redzone" | "provenance" | "crash"),
        Profile::C07 => !v.after_fault && remove_op && matches!(k, "shape" | "cells" | "verdict" | "drain" | "audit_panic" | "redzone" | "provenance" | "crash"),
        Profile::C11 => v.after_fault && !v.after_leak,
        Profile::C12 => v.after_leak,
    }
}

static VERBOSE: std::sync::atomic::AtomicBool = std::sync::atomic::AtomicBool::new(false);

/// Tell the supervisor's watchdog that this worker is alive (ignored by everything else).
pub fn heartbeat() {
    raw_out("H\n");
}

fn raw_out(s: &str) {
    let mut o = std::io::stdout().lock();
    let _ = o.write_all(s.as_bytes());
    let _ = o.flush();
}

fn install_hook() {
    std::panic::set_hook(Box::new(|info| {
        array_engine::LAST_PANIC_FILE.with(|f| {
            if let Ok(mut f) = f.try_borrow_mut() {
                f.clear();
                f.push_str(info.location().map(|l| l.file()).unwrap_or(""));
            }
        });
        // Panics are part of normal operation (rejected calls, injected faults) and are silent,
        // except in journal mode, where the last message before the process died is the diagnosis.
        if VERBOSE.load(std::sync::atomic::Ordering::Relaxed) || array_engine::IN_GUARDED.with(|g| g.get()) == 0 {
            let msg = info.payload().downcast_ref::<&str>().map(|s| s.to_string()).or_else(|| info.payload().downcast_ref::<String>().cloned()).unwrap_or_default();
            eprintln!("PANIC: {} at {:?}", msg, info.location().map(|l| format!("{}:{}", l.file(), l.line())));
            if array_engine::IN_GUARDED.with(|g| g.get()) == 0 {
                // a panic outside the guarded regions is a harness bug: show where
                eprintln!("{}", std::backtrace::Backtrace::force_capture());
            }
        }
    }));
}

fn run_seed(seed: u64, prop: &str, build: &str, run: u64) -> u64 {
    mix(&[seed, fnv(prop.as_bytes()), fnv(build.as_bytes()), run])
}

fn trace_hash(t: &steps::ArrayTrace) -> u64 {
    fnv(&serde_json::to_vec(t).unwrap())
}

fn one_array_run(profile: Profile, thorough: bool, rseed: u64, journal: runner::Journal<'_>, only_variant: Option<usize>) -> (Vec<runner::RunOutcome>, bool) {
    let mut rng = Rng::new(rseed);
    // one run in 24 of C01 / C06 works on giant zero-sized arrays (dimension arithmetic near usize::MAX)
    if matches!(profile, Profile::C01 | Profile::C06) && rng.chance(1, 24) {
        let n = rng.range(2, 14);
        return (vec![runner::run_giant(&[], Some(&mut rng), n, journal)], false);
    }
    let cfg = draw_cfg(&mut rng, profile, thorough);
    // crash-point / consumption-split sweeps: every run in thorough C11/C12, 1 in 8 otherwise
    // (C07: every (front, back) consumption split of one drain, dropped afterwards)
    let sweep = matches!(profile, Profile::C11 | Profile::C12) && (thorough && rng.chance(1, 2) || rng.chance(1, 8)) || matches!(profile, Profile::C07 | Profile::C06) && rng.chance(1, 16);
    if sweep {
        let s = rng.next_u64();
        let outs = match cfg.flavour {
            Flavour::Tok => runner::run_sweep::<Tok>(s, &cfg, journal, only_variant),
            Flavour::Cid => runner::run_sweep::<Cid>(s, &cfg, journal, only_variant),
            Flavour::ZTok => runner::run_sweep::<ZTok>(s, &cfg, journal, only_variant),
            Flavour::Mov => runner::run_sweep::<Mov>(s, &cfg, journal, only_variant),
            Flavour::Fat => runner::run_sweep::<Fat>(s, &cfg, journal, only_variant),
            Flavour::Giant => unreachable!(),
        };
        (outs, true)
    } else {
        let o = match cfg.flavour {
            Flavour::Tok => runner::run_generated::<Tok>(&mut rng, &cfg, journal),
            Flavour::Cid => runner::run_generated::<Cid>(&mut rng, &cfg, journal),
            Flavour::ZTok => runner::run_generated::<ZTok>(&mut rng, &cfg, journal),
            Flavour::Mov => runner::run_generated::<Mov>(&mut rng, &cfg, journal),
            Flavour::Fat => runner::run_generated::<Fat>(&mut rng, &cfg, journal),
            Flavour::Giant => unreachable!(),
        };
        (vec![o], false)
    }
}

fn worker(args: &[String]) -> i32 {
    let prop = &args[0];
    let thorough = args[1] == "thorough";
    let seed: u64 = args[2].parse().unwrap();
    let build = &args[3];
    let start: u64 = args[4].parse().unwrap();
    let end: u64 = args[5].parse().unwrap();
    let hashfile = &args[6];
    let digest = args.iter().any(|a| a == "--digest");
    let mut agg = Agg::default();
    let mut n_viol = 0;
    let mut stop_after: Option<u64> = None;
    if let Some(profile) = Profile::parse(prop) {
        let fault_prop = matches!(profile, Profile::C11 | Profile::C12);
        for run in start..end {
            raw_out(&format!("B {}\n", run));
            let rseed = run_seed(seed, prop, build, run);
            let (outs, swept) = one_array_run(profile, thorough, rseed, None, None);
            agg.runs += 1;
            if digest {
                let mut h = 0u64;
                for o in &outs {
                    let v = o.viol.as_ref().map(|v| format!("{}|{}|{}|{}", v.kind, v.op, v.step, v.detail)).unwrap_or_default();
                    h = mix(&[h, trace_hash(&o.trace), fnv(v.as_bytes()), o.stats.steps, o.stats.accepted_mutations, o.stats.fired.iter().sum::<u64>(), o.stats.states.iter().fold(0u64, |a, b| a ^ b)]);
                }
                raw_out(&format!("D {} {:016x} {}\n", run, h, outs.len()));
            }
            if swept {
                agg.sweeps += 1;
                agg.sweep_points += outs.len() as u64;
            }
            for (vi, o) in outs.into_iter().enumerate() {
                agg.evaluations += 1;
                merge_stats(&mut agg.stats, &o.stats);
                *agg.flavours.entry(format!("{:?}", o.trace.flavour)).or_insert(0) += 1;
                agg.alloc_modes[o.trace.alloc_mode as usize] += 1;
                if o.fault_runs {
                    agg.fault_runs += 1;
                }
                let any_fault = o.stats.fired.iter().sum::<u64>() + o.stats.lies + o.stats.leaks > 0;
                let nontrivial = o.stats.accepted_mutations >= 3 && (!fault_prop || any_fault);
                if nontrivial {
                    agg.nontrivial += 1;
                    agg.hashes.insert(trace_hash(&o.trace));
                }
                if start == 0 && agg.samples.len() < 3 && nontrivial {
                    agg.samples.push(serde_json::to_value(&o.trace).unwrap());
                }
                if let Some(v) = o.viol {
                    // After any violation the heap of this process may be damaged: finish this
                    // run, report, and let the supervisor continue the range in a fresh process.
                    let is_owned = owned(profile, &v);
                    // (also when the violation belongs to another property: an accepted invalid
                    // call may have written anywhere)
                    stop_after = Some(run);
                    if is_owned {
                        agg.owned_violations += 1;
                        n_viol += 1;
                        let tf = TraceFile { engine: "array".into(), property: prop.clone(), build: build.clone(), seed, run, violation: Some(v), trace: serde_json::to_value(&o.trace).unwrap() };
                        raw_out(&format!("V {}\n", serde_json::to_string(&serde_json::json!({"variant": vi, "file": tf})).unwrap()));
                    } else {
                        *agg.foreign.entry(format!("{}@{}", v.kind, v.op)).or_insert(0) += 1;
                    }
                }
            }
            if stop_after.is_some() {
                break;
            }
        }
    } else if matches!(prop.as_str(), "C08" | "C09" | "C10") {
        return cursor_worker(prop, thorough, seed, build, start, end, hashfile, digest);
    } else if matches!(prop.as_str(), "C18" | "C19") {
        return serde_worker(prop, thorough, seed, build, start, end, hashfile, digest);
    } else {
        eprintln!("unknown property {}", prop);
        return 2;
    }
    // distinct hashes go to a binary file (merged by `distinct`)
    let mut bytes = Vec::with_capacity(agg.hashes.len() * 8);
    for h in &agg.hashes {
        bytes.extend_from_slice(&h.to_le_bytes());
    }
    if std::fs::write(hashfile, &bytes).is_err() {
        eprintln!("cannot write {}", hashfile);
        return 2;
    }
    let s = &agg.stats;
    let fired: BTreeMap<&str, u64> = (0..N_KINDS).map(|k| (KIND_NAMES[k], s.fired[k])).collect();
    let calls: BTreeMap<&str, u64> = (0..N_KINDS).map(|k| (KIND_NAMES[k], s.calls[k])).collect();
    let out = serde_json::json!({
        "runs": agg.runs, "evaluations": agg.evaluations, "nontrivial": agg.nontrivial,
        "steps": s.steps, "accepted_mutations": s.accepted_mutations, "rejected_calls": s.rejected, "skipped_steps": s.skipped,
        "unwind_fired": fired, "armed_not_reached": s.armed_not_reached, "lying_len_fired": s.lies, "leak_fired": s.leaks,
        "caller_code_calls": calls, "probes": s.probes, "states": s.states.iter().collect::<Vec<_>>(), "max_len": s.max_len,
        "foreign": agg.foreign, "owned_violations": agg.owned_violations, "samples": agg.samples,
        "flavours": agg.flavours, "alloc_modes": {"system": agg.alloc_modes[0], "force_move": agg.alloc_modes[1], "slack": agg.alloc_modes[2]},
        "fault_config_runs": agg.fault_runs, "sweeps": agg.sweeps, "sweep_points": agg.sweep_points,
        "realloc_moved": alloc::N_REALLOC_MOVED.load(std::sync::atomic::Ordering::Relaxed),
        "realloc_inplace": alloc::N_REALLOC_INPLACE.load(std::sync::atomic::Ordering::Relaxed),
    });
    raw_out(&format!("S {}\n", out));
    if let Some(r) = stop_after {
        raw_out(&format!("E {}\n", r + 1));
    }
    let _ = n_viol;
    0
}

fn write_hashes(hashfile: &str, hashes: &BTreeSet<u64>) -> bool {
    let mut bytes = Vec::with_capacity(hashes.len() * 8);
    for h in hashes {
        bytes.extend_from_slice(&h.to_le_bytes());
    }
    std::fs::write(hashfile, &bytes).is_ok()
}

fn cviol_to_viol(v: cursor::CViol) -> Viol {
    Viol { kind: v.kind, detail: v.detail, step: v.step, op: v.op, fault: None, after_fault: false, after_leak: false }
}

#[allow(clippy::too_many_arguments)]
fn cursor_worker(prop: &str, thorough: bool, seed: u64, build: &str, start: u64, end: u64, hashfile: &str, digest: bool) -> i32 {
    let mut stats = cursor::CStats::default();
    let mut hashes = BTreeSet::new();
    let (mut runs, mut nontrivial, mut n_viol) = (0u64, 0u64, 0u64);
    let mut stop_after: Option<u64> = None;
    let mut samples: Vec<serde_json::Value> = Vec::new();
    for run in start..end {
        raw_out(&format!("B {}\n", run));
        let mut rng = Rng::new(run_seed(seed, prop, build, run));
        let t = if rng.chance(1, 12) { cursor::gen_trace_zst(&mut rng, prop) } else { cursor::gen_trace(&mut rng, prop, thorough) };
        let y0 = stats.yielded;
        let c0 = stats.calls;
        let res = cursor::exec(&t, &mut stats);
        runs += 1;
        let h = fnv(&serde_json::to_vec(&t).unwrap());
        if digest {
            let v = res.as_ref().err().map(|v| format!("{}|{}|{}", v.kind, v.step, v.detail)).unwrap_or_default();
            raw_out(&format!("D {} {:016x} 1\n", run, mix(&[h, fnv(v.as_bytes()), stats.calls - c0, stats.yielded - y0])));
        }
        if stats.yielded - y0 >= 3 {
            nontrivial += 1;
            hashes.insert(h);
            if start == 0 && samples.len() < 3 {
                samples.push(serde_json::to_value(&t).unwrap());
            }
        }
        if let Err(v) = res {
            n_viol += 1;
            let tf = TraceFile { engine: "cursor".into(), property: prop.to_string(), build: build.to_string(), seed, run, violation: Some(cviol_to_viol(v)), trace: serde_json::to_value(&t).unwrap() };
            raw_out(&format!("V {}\n", serde_json::to_string(&serde_json::json!({"variant": 0, "file": tf})).unwrap()));
            stop_after = Some(run);
            break;
        }
    }
    if !write_hashes(hashfile, &hashes) {
        return 2;
    }
    let out = serde_json::json!({
        "runs": runs, "evaluations": runs, "nontrivial": nontrivial, "steps": stats.calls, "elements_yielded": stats.yielded,
        "probes": stats.probes, "receivers": stats.receivers, "iterators": stats.iters, "skipped_steps": stats.skipped,
        "owned_violations": n_viol, "samples": samples, "foreign": {},
    });
    raw_out(&format!("S {}\n", out));
    if let Some(r) = stop_after {
        raw_out(&format!("E {}\n", r + 1));
    }
    0
}

fn sviol_to_viol(v: serde_engine::SViol) -> Viol {
    Viol { kind: v.kind, detail: v.detail, step: 0, op: v.op, fault: None, after_fault: false, after_leak: false }
}

#[allow(clippy::too_many_arguments)]
fn serde_worker(prop: &str, thorough: bool, seed: u64, build: &str, start: u64, end: u64, hashfile: &str, digest: bool) -> i32 {
    let mut stats = serde_engine::SStats::default();
    let mut hashes = BTreeSet::new();
    let (mut runs, mut nontrivial, mut n_viol) = (0u64, 0u64, 0u64);
    let mut stop_after: Option<u64> = None;
    let mut samples: Vec<serde_json::Value> = Vec::new();
    for run in start..end {
        raw_out(&format!("B {}\n", run));
        let mut rng = Rng::new(run_seed(seed, prop, build, run));
        let t = serde_engine::gen_trace(&mut rng, prop, thorough);
        let cells0 = stats.cells;
        let res = serde_engine::exec(&t, prop, &mut stats);
        runs += 1;
        let h = fnv(&serde_json::to_vec(&t).unwrap());
        if digest {
            let v = res.as_ref().err().map(|v| format!("{}|{}", v.kind, v.detail)).unwrap_or_default();
            raw_out(&format!("D {} {:016x} 1\n", run, mix(&[h, fnv(v.as_bytes()), stats.cells - cells0, matches!(res, Ok(true)) as u64])));
        }
        let executed = !matches!(res, Ok(false));
        if executed && (t.cols > 0 || !t.muts.is_empty() || !t.byte_muts.is_empty()) {
            nontrivial += 1;
            hashes.insert(h);
            if start == 0 && samples.len() < 3 {
                samples.push(serde_json::to_value(&t).unwrap());
            }
        }
        if let Err(v) = res {
            n_viol += 1;
            let tf = TraceFile { engine: "serde".into(), property: prop.to_string(), build: build.to_string(), seed, run, violation: Some(sviol_to_viol(v)), trace: serde_json::to_value(&t).unwrap() };
            raw_out(&format!("V {}\n", serde_json::to_string(&serde_json::json!({"variant": 0, "file": tf})).unwrap()));
            stop_after = Some(run);
            break;
        }
    }
    if !write_hashes(hashfile, &hashes) {
        return 2;
    }
    let out = serde_json::json!({
        "runs": runs, "evaluations": runs, "nontrivial": nontrivial, "steps": runs, "cells_serialised": stats.cells,
        "transport_faults": stats.transport_faults, "document_mutations": stats.doc_mutations, "outcomes": stats.outcomes,
        "transport_pairs": stats.pairs, "element_types": stats.elems, "skipped_steps": stats.skipped,
        "owned_violations": n_viol, "samples": samples, "foreign": {},
    });
    raw_out(&format!("S {}\n", out));
    if let Some(r) = stop_after {
        raw_out(&format!("E {}\n", r + 1));
    }
    0
}

fn journal_cmd(args: &[String]) -> i32 {
    let prop = &args[0];
    let thorough = args[1] == "thorough";
    let seed: u64 = args[2].parse().unwrap();
    let build = &args[3];
    let run: u64 = args[4].parse().unwrap();
    let mut f = std::fs::OpenOptions::new().create(true).write(true).truncate(true).open(&args[5]).expect("journal file");
    VERBOSE.store(true, std::sync::atomic::Ordering::Relaxed);
    if let Some(profile) = Profile::parse(prop) {
        let rseed = run_seed(seed, prop, build, run);
        let (outs, _) = one_array_run(profile, thorough, rseed, Some(&mut f), None);
        for o in outs {
            if let Some(v) = o.viol {
                let own = owned(profile, &v);
                println!("J-VIOL {}", serde_json::json!({"owned": own, "viol": v, "trace": o.trace}));
            }
        }
        0
    } else if matches!(prop.as_str(), "C08" | "C09" | "C10") {
        let mut rng = Rng::new(run_seed(seed, prop, build, run));
        let t = if rng.chance(1, 12) { cursor::gen_trace_zst(&mut rng, prop) } else { cursor::gen_trace(&mut rng, prop, thorough) };
        // the whole trace is known before anything executes: journal it first
        let _ = f.write_all(format!("{}\n", serde_json::to_string(&t).unwrap()).as_bytes());
        let mut st = cursor::CStats::default();
        if let Err(v) = cursor::exec(&t, &mut st) {
            println!("J-VIOL {}", serde_json::json!({"owned": true, "viol": cviol_to_viol(v), "trace": t}));
        }
        0
    } else if matches!(prop.as_str(), "C18" | "C19") {
        let mut rng = Rng::new(run_seed(seed, prop, build, run));
        let t = serde_engine::gen_trace(&mut rng, prop, thorough);
        let _ = f.write_all(format!("{}\n", serde_json::to_string(&t).unwrap()).as_bytes());
        let mut st = serde_engine::SStats::default();
        if let Err(v) = serde_engine::exec(&t, prop, &mut st) {
            println!("J-VIOL {}", serde_json::json!({"owned": true, "viol": sviol_to_viol(v), "trace": t}));
        }
        0
    } else {
        2
    }
}

/// Execute an explicit trace. Output: `R {"violation": ...|null, "steps_done": n}`; exit 0.
fn exec_cmd(args: &[String]) -> i32 {
    let text = match std::fs::read_to_string(&args[0]) {
        Ok(t) => t,
        Err(e) => {
            eprintln!("cannot read {}: {}", args[0], e);
            return 2;
        }
    };
    let tf: TraceFile = match serde_json::from_str(&text) {
        Ok(t) => t,
        Err(e) => {
            eprintln!("bad trace file: {}", e);
            return 2;
        }
    };
    match tf.engine.as_str() {
        "array" => {
            let trace: steps::ArrayTrace = match serde_json::from_value(tf.trace.clone()) {
                Ok(t) => t,
                Err(e) => {
                    eprintln!("bad array trace: {}", e);
                    return 2;
                }
            };
            let mut jf = args.get(1).map(|p| std::fs::OpenOptions::new().create(true).write(true).truncate(true).open(p).expect("journal file"));
            let o = runner::run_explicit_dyn(&trace, jf.as_mut());
            let profile = Profile::parse(&tf.property);
            let v = o.viol.map(|v| {
                let own = profile.map_or(true, |p| owned(p, &v));
                serde_json::json!({"owned": own, "viol": v})
            });
            println!("R {}", serde_json::json!({"violation": v, "steps_done": o.trace.steps.len()}));
            0
        }
        "cursor" => {
            let trace: cursor::CursorTrace = match serde_json::from_value(tf.trace.clone()) {
                Ok(t) => t,
                Err(e) => {
                    eprintln!("bad cursor trace: {}", e);
                    return 2;
                }
            };
            if let Some(p) = args.get(1) {
                let _ = std::fs::write(p, format!("{}\n", serde_json::to_string(&trace).unwrap()));
            }
            let mut st = cursor::CStats::default();
            let v = cursor::exec(&trace, &mut st).err().map(|v| serde_json::json!({"owned": true, "viol": cviol_to_viol(v)}));
            println!("R {}", serde_json::json!({"violation": v, "steps_done": trace.calls.len()}));
            0
        }
        "serde" => {
            let trace: serde_engine::SerdeTrace = match serde_json::from_value(tf.trace.clone()) {
                Ok(t) => t,
                Err(e) => {
                    eprintln!("bad serde trace: {}", e);
                    return 2;
                }
            };
            if let Some(p) = args.get(1) {
                let _ = std::fs::write(p, format!("{}\n", serde_json::to_string(&trace).unwrap()));
            }
            let mut st = serde_engine::SStats::default();
            let v = serde_engine::exec(&trace, &tf.property, &mut st).err().map(|v| serde_json::json!({"owned": true, "viol": sviol_to_viol(v)}));
            println!("R {}", serde_json::json!({"violation": v, "steps_done": 1}));
            0
        }
        other => {
            eprintln!("unknown engine {}", other);
            2
        }
    }
}

fn distinct_cmd(args: &[String]) -> i32 {
    let mut all: Vec<u64> = Vec::new();
    for p in args {
        if let Ok(b) = std::fs::read(p) {
            for c in b.chunks_exact(8) {
                all.push(u64::from_le_bytes(c.try_into().unwrap()));
            }
        }
    }
    all.sort_unstable();
    all.dedup();
    println!("{}", all.len());
    0
}

fn main() {
    install_hook();
    let args: Vec<String> = std::env::args().skip(1).collect();
    if args.is_empty() {
        eprintln!("usage: toodee-sim worker|journal|exec|distinct ...");
        std::process::exit(2);
    }
    let code = match args[0].as_str() {
        "worker" => worker(&args[1..]),
        "journal" => journal_cmd(&args[1..]),
        "exec" => exec_cmd(&args[1..]),
        "distinct" => distinct_cmd(&args[1..]),
        _ => {
            eprintln!("unknown subcommand");
            2
        }
    };
    std::process::exit(code);
}
