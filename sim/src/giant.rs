//! Giant shapes (C01, C06): arrays of the zero-sized `()` whose row / cell counts approach
//! usize::MAX. Only dimensions can be modelled (cells are indistinguishable and far too many
//! to visit), so the model is a pair of numbers kept in u128 and the audit uses the O(1)
//! observers only. The step vocabulary is the array engine's; operations that would walk the
//! elements (removing a column of 2^62 rows, `new`, fill, sorts, ...) are skipped.

use crate::array_engine::{guarded, Caught, RunStats, Viol};
use crate::elem::{Lie, SimSource, N_KINDS};
use crate::rng::Rng;
use crate::steps::*;
use std::collections::VecDeque;
use toodee::{TooDee, TooDeeOps};

const M: u128 = usize::MAX as u128;
/// lines longer than this cannot be supplied / drained element by element
const LINE_MAX: u128 = 48;

pub struct Giant {
    arr: TooDee<()>,
    c: u128,
    r: u128,
    step_no: usize,
    pub stats: RunStats,
}

enum V {
    Accept(u128, u128),
    Reject,
    Skip,
}

impl Giant {
    pub fn new() -> Giant {
        Giant { arr: TooDee::default(), c: 0, r: 0, step_no: 0, stats: RunStats::default() }
    }

    fn viol(&self, kind: &str, detail: String, step: &Step) -> Viol {
        Viol { kind: kind.into(), detail, step: self.step_no, op: step.op.name().into(), fault: None, after_fault: false, after_leak: false }
    }

    fn audit(&self) -> Result<(), (&'static str, String)> {
        let a = &self.arr;
        let (c, r) = a.size();
        let len = a.data().len();
        if (c as u128) * (r as u128) != len as u128 {
            return Err(("shape", format!("num_cols={} num_rows={} but data().len()={}", c, r, len)));
        }
        if (c == 0) != (r == 0) {
            return Err(("shape", format!("exactly one zero dimension: size=({},{})", c, r)));
        }
        if (c as u128, r as u128) != (self.c, self.r) {
            return Err(("cells", format!("size ({},{}) but the model has ({},{})", c, r, self.c, self.r)));
        }
        if a.rows().len() != r || a.cells().len() != len || a.is_empty() != (len == 0) {
            return Err(("lens", format!("rows().len()={} cells().len()={} for size ({},{})", a.rows().len(), a.cells().len(), c, r)));
        }
        if c > 0 {
            for cc in [0, c - 1, c / 2] {
                let l = a.col(cc).len();
                if l != r {
                    return Err(("lens", format!("col({}).len()={} num_rows={}", cc, l, r)));
                }
            }
        }
        Ok(())
    }

    pub fn step(&mut self, step: &Step) -> Result<(), Viol> {
        self.stats.steps += 1;
        let (c, r) = (self.c, self.r);
        let fits = |x: u128, y: u128| x * y <= M;
        let mut outcome: Result<Result<(), String>, Caught> = Ok(Ok(()));
        let verdict: V;
        let arr = &mut self.arr;
        macro_rules! run {
            ($body:expr) => {{
                let (o, _c, _f): (_, [u32; N_KINDS], bool) = guarded(None, $body);
                outcome = o;
            }};
        }
        match &step.op {
            Op::Init { c: nc, r: nr } => {
                let (nc, nr) = (*nc, *nr);
                verdict = if (nc == 0) == (nr == 0) && fits(nc as u128, nr as u128) { V::Accept(nc as u128, nr as u128) } else { V::Reject };
                run!(|| {
                    *arr = TooDee::init(nc, nr, ());
                    Ok(())
                });
            }
            Op::InsertRow { len, lie, .. } | Op::PushRow { len, lie } | Op::InsertCol { len, lie, .. } | Op::PushCol { len, lie } => {
                let is_row = matches!(step.op, Op::InsertRow { .. } | Op::PushRow { .. });
                let (dim, other) = if is_row { (r, c) } else { (c, r) };
                let idx: u128 = match &step.op {
                    Op::InsertRow { idx, .. } | Op::InsertCol { idx, .. } => *idx as u128,
                    _ => dim,
                };
                let len = *len as u128;
                if len > LINE_MAX || *lie != Lie::Honest {
                    verdict = V::Skip;
                } else {
                    verdict = if idx > dim {
                        V::Reject
                    } else if dim == 0 {
                        if len == 0 { V::Accept(0, 0) } else if is_row { V::Accept(len, 1) } else { V::Accept(1, len) }
                    } else if len != other {
                        V::Reject
                    } else if !fits(dim + 1, other) {
                        // the grown array would have more than usize::MAX cells: the call must be rejected
                        V::Reject
                    } else if is_row {
                        V::Accept(c, r + 1)
                    } else {
                        V::Accept(c + 1, r)
                    };
                    let src = SimSource { items: (0..len as usize).map(|_| ()).collect::<VecDeque<()>>(), lie: Lie::Honest };
                    let op = step.op.clone();
                    run!(|| {
                        match op {
                            Op::InsertRow { idx, .. } => arr.insert_row(idx, src),
                            Op::PushRow { .. } => arr.push_row(src),
                            Op::InsertCol { idx, .. } => arr.insert_col(idx, src),
                            _ => arr.push_col(src),
                        }
                        Ok(())
                    });
                }
            }
            Op::RemoveRow { .. } | Op::PopRow { .. } => {
                let idx: Option<u128> = match &step.op {
                    Op::RemoveRow { idx, .. } => Some(*idx as u128),
                    _ => None,
                };
                verdict = match idx {
                    Some(i) if i >= r => V::Reject,
                    _ if r == 0 => V::Accept(0, 0),
                    _ => if r == 1 { V::Accept(0, 0) } else { V::Accept(c, r - 1) },
                };
                let expect_len = c as usize;
                let pop_none = idx.is_none() && r == 0;
                run!(|| {
                    let d = match idx {
                        Some(i) => Some(arr.remove_row(i as usize)),
                        None => arr.pop_row(),
                    };
                    match d {
                        None => if pop_none { Ok(()) } else { Err("pop_row returned None on a non-empty array".to_string()) },
                        Some(mut d) => {
                            if pop_none {
                                return Err("pop_row returned a drain on an empty array".to_string());
                            }
                            if d.len() != expect_len {
                                return Err(format!("drain len() = {}, expected {}", d.len(), expect_len));
                            }
                            let first = d.next().is_some();
                            let last = d.next_back().is_some();
                            if first != (expect_len >= 1) || last != (expect_len >= 2) || d.len() != expect_len.saturating_sub(2) {
                                return Err("drain yields the wrong number of elements".to_string());
                            }
                            Ok(())
                        }
                    }
                });
            }
            Op::RemoveCol { .. } | Op::PopCol { .. } => {
                if r > LINE_MAX {
                    verdict = V::Skip; // the drain's destructor walks every row
                } else {
                    let idx: Option<u128> = match &step.op {
                        Op::RemoveCol { idx, .. } => Some(*idx as u128),
                        _ => None,
                    };
                    verdict = match idx {
                        Some(i) if i >= c => V::Reject,
                        _ if c == 0 => V::Accept(0, 0),
                        _ => if c == 1 { V::Accept(0, 0) } else { V::Accept(c - 1, r) },
                    };
                    let expect_len = r as usize;
                    let pop_none = idx.is_none() && c == 0;
                    run!(|| {
                        let d = match idx {
                            Some(i) => Some(arr.remove_col(i as usize)),
                            None => arr.pop_col(),
                        };
                        match d {
                            None => if pop_none { Ok(()) } else { Err("pop_col returned None on a non-empty array".to_string()) },
                            Some(mut d) => {
                                if pop_none || d.len() != expect_len {
                                    return Err(format!("column drain len() = {}, expected {}", d.len(), expect_len));
                                }
                                let _ = d.next();
                                Ok(())
                            }
                        }
                    });
                }
            }
            Op::Clear => {
                verdict = V::Accept(0, 0);
                run!(|| {
                    arr.clear();
                    Ok(())
                });
            }
            Op::SwapDimensions => {
                verdict = V::Accept(r, c);
                run!(|| {
                    arr.swap_dimensions();
                    Ok(())
                });
            }
            Op::Reserve { n } | Op::ReserveExact { n } => {
                let n = *n;
                // Vec<()> has capacity usize::MAX; reserve panics only if len + n overflows
                verdict = if c * r + n as u128 <= M { V::Accept(c, r) } else { V::Reject };
                let exact = matches!(step.op, Op::ReserveExact { .. });
                run!(|| {
                    if exact { arr.reserve_exact(n) } else { arr.reserve(n) }
                    Ok(())
                });
            }
            Op::ShrinkToFit => {
                verdict = V::Accept(c, r);
                run!(|| {
                    arr.shrink_to_fit();
                    Ok(())
                });
            }
            _ => verdict = V::Skip,
        }
        let mut was_rejected = false;
        match (verdict, &outcome) {
            (V::Skip, _) => {
                self.stats.skipped += 1;
                self.step_no += 1;
                return Ok(());
            }
            (_, Ok(Err(msg))) => return Err(self.viol("drain", msg.clone(), step)),
            (V::Accept(nc, nr), Ok(Ok(()))) => {
                if (nc, nr) != (self.c, self.r) {
                    self.stats.accepted_mutations += 1;
                }
                self.c = nc;
                self.r = nr;
            }
            (V::Accept(..), Err(Caught::Panic(m))) => return Err(self.viol("verdict", format!("a valid call panicked: {} (size was ({},{}))", m, c, r), step)),
            (V::Reject, Ok(Ok(()))) => {
                let detail = format!("an invalid call was accepted; size was ({},{}), is now {:?}, data().len()={}", c, r, self.arr.size(), self.arr.data().len());
                return Err(self.viol("verdict", detail, step));
            }
            (V::Reject, Err(Caught::Panic(_))) => {
                self.stats.rejected += 1;
                was_rejected = true;
            }
            (_, Err(Caught::Fault(_))) => unreachable!("no faults are armed in giant runs"),
        }
        // the observers themselves may panic (e.g. overflowing size arithmetic): that is a finding
        let (audit, _, _): (_, [u32; N_KINDS], bool) = guarded(None, || self.audit());
        match audit {
            Ok(Ok(())) => {}
            Ok(Err((k, d))) => return Err(self.viol(if was_rejected && k == "cells" { "cells_after_reject" } else { k }, d, step)),
            Err(Caught::Panic(m)) => return Err(self.viol("audit_panic", format!("reading the array panicked: {} (size ({},{}))", m, self.c, self.r), step)),
            Err(Caught::Fault(_)) => unreachable!(),
        }
        if self.c > (1 << 40) || self.r > (1 << 40) {
            self.stats.probe("giant_shape_step");
        }
        self.step_no += 1;
        Ok(())
    }
}

/// Generate the next step for a giant run from the modelled dimensions.
pub fn gen_step(rng: &mut Rng, c: u128, r: u128) -> Step {
    let small = |rng: &mut Rng, dim: u128| -> usize {
        // an index: 0, dim, dim+1, dim-1, or something in between
        let d = dim.min(M) as usize;
        match rng.below(6) {
            0 => 0,
            1 => d,
            2 => d.saturating_add(1),
            3 => d.saturating_sub(1),
            4 => d / 2,
            _ => usize::MAX,
        }
    };
    let line = |rng: &mut Rng, want: u128| -> usize {
        if want <= LINE_MAX && !rng.chance(1, 6) { want as usize } else { rng.below(6) }
    };
    let op = match rng.below(12) {
        0 | 1 => Op::InsertRow { idx: small(rng, r), len: line(rng, c), lie: Lie::Honest },
        2 => Op::PushRow { len: line(rng, c), lie: Lie::Honest },
        3 | 4 => Op::InsertCol { idx: small(rng, c), len: line(rng, r), lie: Lie::Honest },
        5 => Op::PushCol { len: line(rng, r), lie: Lie::Honest },
        6 => Op::RemoveRow { idx: small(rng, r.saturating_sub(1)), script: Script::default() },
        7 => Op::PopRow { script: Script::default() },
        8 => if rng.chance(1, 2) { Op::PopCol { script: Script::default() } } else { Op::RemoveCol { idx: small(rng, c.saturating_sub(1)), script: Script::default() } },
        9 => Op::SwapDimensions,
        10 => Op::Reserve { n: *[0usize, 1, 3, 64].get(rng.below(4)).unwrap() },
        _ => if rng.chance(1, 4) { Op::Clear } else { Op::ShrinkToFit },
    };
    Step { op, fault: None }
}

pub fn gen_first(rng: &mut Rng) -> Step {
    const X: usize = usize::MAX;
    let shapes: [(usize, usize); 16] = [(X, 1), (1, X), (X / 3, 3), (3, X / 3), (X / 5, 5), (5, X / 5), (1 << 32, 1 << 16), (X / 2, 2), (2, X / 2), (1 << 63, 1), (1, 1 << 63), (1 << 32, (1 << 32) - 1), (X / 17, 17), (17, X / 17), (X, 2), (1 << 33, 1 << 31)];
    let (c, r) = shapes[rng.below(shapes.len())];
    Step { op: Op::Init { c, r }, fault: None }
}

pub fn dims(g: &Giant) -> (u128, u128) {
    (g.c, g.r)
}
