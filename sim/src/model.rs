//! The reference model: a plain rows-of-cells grid (`Vec<Vec<u32>>`), trivially correct by
//! inspection, that gives a verdict (accept / reject) for any operation with any arguments in
//! any state. Cells are value identities (`val`), which are unique per mint.

use crate::steps::*;

#[derive(Clone, Copy, Debug, PartialEq, Eq)]
pub enum Verdict {
    /// the call must return normally and the model has been updated
    Accept,
    /// the call must panic and leave the array unchanged
    Reject,
    /// the property claimed here does not fix the outcome; cells must be unchanged either way
    Either,
    /// the step is not executed at all (it would exercise a known defect of an unclaimed property)
    Skip,
}

#[derive(Clone, Debug, PartialEq, Eq, Default)]
pub struct Model {
    pub cols: usize,
    pub rows: Vec<Vec<u32>>,
}

impl Model {
    pub fn empty() -> Model {
        Model { cols: 0, rows: Vec::new() }
    }

    pub fn num_rows(&self) -> usize {
        self.rows.len()
    }

    pub fn size(&self) -> (usize, usize) {
        (self.cols, self.rows.len())
    }

    pub fn len(&self) -> usize {
        self.cols * self.rows.len()
    }

    pub fn flat(&self) -> Vec<u32> {
        self.rows.iter().flat_map(|r| r.iter().copied()).collect()
    }

    pub fn col(&self, c: usize) -> Vec<u32> {
        self.rows.iter().map(|r| r[c]).collect()
    }

    /// Build from a row-major buffer. (0,0) when empty.
    pub fn from_flat(cols: usize, rows: usize, flat: &[u32]) -> Model {
        assert_eq!(cols * rows, flat.len());
        if cols == 0 || rows == 0 {
            return Model::empty();
        }
        Model { cols, rows: flat.chunks(cols).map(|c| c.to_vec()).collect() }
    }

    fn normalise(&mut self) {
        if self.cols == 0 || self.rows.is_empty() {
            self.cols = 0;
            self.rows.clear();
        }
    }

    // ---------------------------------------------------------------- constructors

    /// The documented precondition shared by new / init / from_vec / from_box / view::new.
    pub fn dims_ok(c: usize, r: usize) -> Option<usize> {
        if (c == 0) != (r == 0) {
            return None;
        }
        c.checked_mul(r)
    }

    // ---------------------------------------------------------------- structural edits

    pub fn insert_row(&mut self, idx: usize, vals: &[u32]) -> Verdict {
        if idx > self.rows.len() {
            return Verdict::Reject;
        }
        if self.rows.is_empty() {
            if !vals.is_empty() {
                self.cols = vals.len();
                self.rows.push(vals.to_vec());
            }
            return Verdict::Accept;
        }
        if vals.len() != self.cols {
            return Verdict::Reject;
        }
        self.rows.insert(idx, vals.to_vec());
        Verdict::Accept
    }

    pub fn insert_col(&mut self, idx: usize, vals: &[u32]) -> Verdict {
        if idx > self.cols {
            return Verdict::Reject;
        }
        if self.cols == 0 {
            if !vals.is_empty() {
                self.cols = 1;
                self.rows = vals.iter().map(|&v| vec![v]).collect();
            }
            return Verdict::Accept;
        }
        if vals.len() != self.rows.len() {
            return Verdict::Reject;
        }
        for (row, &v) in self.rows.iter_mut().zip(vals) {
            row.insert(idx, v);
        }
        self.cols += 1;
        Verdict::Accept
    }

    /// Returns the removed row.
    pub fn remove_row(&mut self, idx: usize) -> Result<Vec<u32>, Verdict> {
        if idx >= self.rows.len() {
            return Err(Verdict::Reject);
        }
        let row = self.rows.remove(idx);
        self.normalise();
        Ok(row)
    }

    pub fn remove_col(&mut self, idx: usize) -> Result<Vec<u32>, Verdict> {
        if idx >= self.cols {
            return Err(Verdict::Reject);
        }
        let col: Vec<u32> = self.rows.iter_mut().map(|r| r.remove(idx)).collect();
        self.cols -= 1;
        self.normalise();
        Ok(col)
    }

    pub fn clear(&mut self) {
        self.cols = 0;
        self.rows.clear();
    }

    pub fn swap_dimensions(&mut self) {
        let flat = self.flat();
        let (c, r) = self.size();
        *self = Model::from_flat(r, c, &flat);
    }

    // ---------------------------------------------------------------- windows

    /// Is (start,end) a valid window of this grid?
    pub fn win_ok(&self, w: Win) -> bool {
        w.start.0 <= w.end.0 && w.start.1 <= w.end.1 && w.end.0 <= self.cols && w.end.1 <= self.rows.len()
    }

    /// Known defect N1 of an unclaimed property (C03): a zero-extent window whose start offset
    /// lies beyond the parent's buffer reaches `get_unchecked` out of range. Such windows are
    /// never executed.
    pub fn win_is_n1(&self, w: Win) -> bool {
        self.win_ok(w) && (w.start.0 == w.end.0 || w.start.1 == w.end.1) && w.start.1 * self.cols + w.start.0 > self.len()
    }

    pub fn sub(&self, w: Win) -> Model {
        let c = w.end.0 - w.start.0;
        let r = w.end.1 - w.start.1;
        if c == 0 || r == 0 {
            return Model::empty();
        }
        Model { cols: c, rows: self.rows[w.start.1..w.end.1].iter().map(|row| row[w.start.0..w.end.0].to_vec()).collect() }
    }

    pub fn write_sub(&mut self, w: Win, sub: &Model) {
        for (i, row) in sub.rows.iter().enumerate() {
            self.rows[w.start.1 + i][w.start.0..w.start.0 + sub.cols].copy_from_slice(row);
        }
    }

    // ---------------------------------------------------------------- in-place operations

    /// Apply an in-place operation. `vals` are the value identities supplied by the caller
    /// (fill value, new cell value, source cells). `is_view` selects the verdicts that differ
    /// for views. Unstable sorts return Accept without changing the model (the engine checks
    /// the relation and re-synchronises).
    pub fn apply_mut(&mut self, op: &MutOp, vals: &[u32], is_view: bool) -> Verdict {
        let (cn, rn) = self.size();
        match *op {
            MutOp::Fill => {
                for row in self.rows.iter_mut() {
                    for c in row.iter_mut() {
                        *c = vals[0];
                    }
                }
                Verdict::Accept
            }
            MutOp::Swap { a, b } => {
                if a.0 < cn && b.0 < cn && a.1 < rn && b.1 < rn {
                    let t = self.rows[a.1][a.0];
                    self.rows[a.1][a.0] = self.rows[b.1][b.0];
                    self.rows[b.1][b.0] = t;
                    Verdict::Accept
                } else {
                    Verdict::Reject
                }
            }
            MutOp::SwapRows { r1, r2 } => {
                if r1 < rn && r2 < rn {
                    self.rows.swap(r1, r2);
                    Verdict::Accept
                } else if r1 == r2 {
                    // C13 (not claimed) says this panics; the shipped overrides return early.
                    Verdict::Either
                } else {
                    Verdict::Reject
                }
            }
            MutOp::SwapCols { c1, c2 } => {
                if c1 < cn && c2 < cn {
                    for row in self.rows.iter_mut() {
                        row.swap(c1, c2);
                    }
                    Verdict::Accept
                } else {
                    Verdict::Reject
                }
            }
            MutOp::RowPairSwap { r1, r2 } => {
                if r1 < rn && r2 < rn && r1 != r2 {
                    self.rows.swap(r1, r2);
                    Verdict::Accept
                } else {
                    Verdict::Reject
                }
            }
            MutOp::CloneFromSlice { len } => {
                if is_view && cn == 0 {
                    // C14 (not claimed): the trait default calls chunks_exact(0) on an empty view
                    return Verdict::Either;
                }
                if len == cn * rn {
                    *self = Model::from_flat(cn, rn, &vals[..len]);
                    Verdict::Accept
                } else {
                    Verdict::Reject
                }
            }
            MutOp::CloneFromToodee { c, r } => {
                if (c, r) == (cn, rn) {
                    *self = Model::from_flat(cn, rn, &vals[..cn * rn]);
                    Verdict::Accept
                } else {
                    Verdict::Reject
                }
            }
            MutOp::Translate { mc, mr } => {
                if mc <= cn && mr <= rn {
                    if cn > 0 {
                        let old = self.rows.clone();
                        for r in 0..rn {
                            for c in 0..cn {
                                self.rows[r][c] = old[(r + mr) % rn][(c + mc) % cn];
                            }
                        }
                    }
                    Verdict::Accept
                } else {
                    Verdict::Reject
                }
            }
            MutOp::FlipRows => {
                self.rows.reverse();
                Verdict::Accept
            }
            MutOp::FlipCols => {
                for row in self.rows.iter_mut() {
                    row.reverse();
                }
                Verdict::Accept
            }
            MutOp::Sort { variant, idx, m, desc, lawless } => {
                let in_range = if variant.by_row() { idx < rn } else { idx < cn };
                if !in_range {
                    return Verdict::Reject;
                }
                if lawless || !variant.stable() {
                    return Verdict::Accept;
                }
                let key = |v: u32| -> u32 {
                    if variant.natural() { v } else { v % m.max(1) }
                };
                let desc = desc && !variant.natural();
                if variant.by_row() {
                    let mut order: Vec<usize> = (0..cn).collect();
                    let keyrow = self.rows[idx].clone();
                    order.sort_by(|&a, &b| {
                        let o = key(keyrow[a]).cmp(&key(keyrow[b]));
                        if desc { o.reverse() } else { o }
                    });
                    for row in self.rows.iter_mut() {
                        let old = row.clone();
                        for (dst, &src) in order.iter().enumerate() {
                            row[dst] = old[src];
                        }
                    }
                } else {
                    let mut order: Vec<usize> = (0..rn).collect();
                    let keycol = self.col(idx);
                    order.sort_by(|&a, &b| {
                        let o = key(keycol[a]).cmp(&key(keycol[b]));
                        if desc { o.reverse() } else { o }
                    });
                    let old = self.rows.clone();
                    for (dst, &src) in order.iter().enumerate() {
                        self.rows[dst] = old[src].clone();
                    }
                }
                Verdict::Accept
            }
            MutOp::UncheckedSet { c, r } => {
                // calling the unchecked accessor out of range is the caller's undefined behaviour
                if c < cn && r < rn {
                    self.rows[r][c] = vals[0];
                    Verdict::Accept
                } else {
                    Verdict::Skip
                }
            }
            MutOp::UncheckedRowSet { r, c } => {
                if r >= rn {
                    Verdict::Skip
                } else if c < cn {
                    self.rows[r][c] = vals[0];
                    Verdict::Accept
                } else {
                    // the row slice is checked: an out-of-range column panics
                    Verdict::Reject
                }
            }
            MutOp::SetCoord { c, r } | MutOp::SetRowCol { r, c } | MutOp::RowsMutSet { r, c } => {
                if c < cn && r < rn {
                    self.rows[r][c] = vals[0];
                    Verdict::Accept
                } else {
                    Verdict::Reject
                }
            }
            MutOp::ColMutSet { c, i } => {
                if c < cn && i < rn {
                    self.rows[i][c] = vals[0];
                    Verdict::Accept
                } else {
                    Verdict::Reject
                }
            }
            MutOp::CellsMutSet { i } => {
                if i < cn * rn {
                    self.rows[i / cn][i % cn] = vals[0];
                    Verdict::Accept
                } else {
                    Verdict::Reject
                }
            }
        }
    }

    pub fn apply_copy(&mut self, op: &CopyOp, vals: &[u32]) -> Verdict {
        let (cn, rn) = self.size();
        match *op {
            CopyOp::FromSlice { len } => {
                if len == cn * rn {
                    *self = Model::from_flat(cn, rn, &vals[..len]);
                    Verdict::Accept
                } else {
                    Verdict::Reject
                }
            }
            CopyOp::FromToodee { c, r } => {
                if (c, r) == (cn, rn) {
                    *self = Model::from_flat(cn, rn, &vals[..cn * rn]);
                    Verdict::Accept
                } else {
                    Verdict::Reject
                }
            }
            CopyOp::Within { src: (tl, br), dest } => {
                if !(tl.0 <= br.0 && tl.1 <= br.1 && br.0 <= cn && br.1 <= rn) {
                    return Verdict::Reject;
                }
                let (w, h) = (br.0 - tl.0, br.1 - tl.1);
                let fits = dest.0.checked_add(w).map_or(false, |x| x <= cn) && dest.1.checked_add(h).map_or(false, |y| y <= rn);
                if !fits {
                    return Verdict::Reject;
                }
                let old = self.rows.clone();
                for y in 0..h {
                    for x in 0..w {
                        self.rows[dest.1 + y][dest.0 + x] = old[tl.1 + y][tl.0 + x];
                    }
                }
                Verdict::Accept
            }
        }
    }

    /// The relation an unstable or lawless sort must satisfy: the result is a permutation of
    /// whole lines of `before` (each exactly once). For lawful comparators the key line must also
    /// be ordered. Returns an explanation when violated.
    pub fn check_sort_relation(before: &Model, after: &Model, variant: SortVariant, idx: usize, m: u32, desc: bool, lawless: bool) -> Result<(), String> {
        if before.size() != after.size() {
            return Err(format!("size changed from {:?} to {:?}", before.size(), after.size()));
        }
        let lines = |g: &Model| -> Vec<Vec<u32>> {
            if variant.by_row() { (0..g.cols).map(|c| g.col(c)).collect() } else { g.rows.clone() }
        };
        let mut a = lines(before);
        let mut b = lines(after);
        let after_lines = b.clone();
        a.sort();
        b.sort();
        if a != b {
            return Err("result is not a permutation of whole lines".into());
        }
        if !lawless {
            let key = |v: u32| -> u32 {
                if variant.natural() { v } else { v % m.max(1) }
            };
            let desc = desc && !variant.natural();
            let keys: Vec<u32> = after_lines.iter().map(|l| key(l[idx])).collect();
            let ok = keys.windows(2).all(|w| if desc { w[0] >= w[1] } else { w[0] <= w[1] });
            if !ok {
                return Err(format!("key line not ordered: {:?}", keys));
            }
        }
        Ok(())
    }
}
