#!/usr/bin/env python3
"""Import confirmed round-3 sub-agent mutants (/tmp/out3-<K>/<n>/, K in T S P O) into /verif/seeded/r3-<K>-<n>/."""
import json, os, re, shutil, glob
AREA = {"T": "translate.rs", "S": "sort.rs", "P": "copy.rs", "O": "ops.rs / TooDee overrides"}
NEEDS = {
 "r3-T-1": "translate_with_wrap normalises row_mid against num_cols: needs a tall array (rows > cols) and row_mid == num_cols",
 "r3-T-2": "translate_with_wrap outer cycle loop bounded by num_cols: needs a tall array, a row offset sharing a factor with num_rows, and num_rows - num_rows/g >= num_cols",
 "r3-T-3": "flip_rows early-out tests num_cols < 2: needs exactly one column and >= 2 rows",
 "r3-S-1": "sort_by_col_key calls the unstable sort: needs tied keys, an unsorted key column and >= 33 rows (the unstable sort is stable below that on this toolchain)",
 "r3-S-2": "sort_by_row early return tests num_rows < 2: needs exactly one row with >= 2 unsorted columns",
 "r3-S-3": "sort_by_row 'already reversed' fast path uses a non-strict test: needs a non-increasing key row with a tie (e.g. [2,2,1]) and a second row to observe column order",
 "r3-P-1": "copy_within same-row branch: take(end) instead of take(count): needs dest row == source top row, source not starting at row 0, a horizontal offset and rows below the block",
 "r3-P-2": "copy_within drops the bottom_right.1 <= num_rows assertion: needs an invalid source that overruns the bottom with the destination above it (the rejected call has already overwritten cells)",
 "r3-P-3": "TooDee::copy_from_toodee accepts a source with the same cell count but another shape: needs e.g. 3x4 from 2x6",
 "r3-O-1": "TooDee::swap_rows offset multiplied by num_rows: needs a non-square array and non-adjacent rows",
 "r3-O-2": "swap_cols returns early for equal indices before the bounds asserts: needs both indices equal and out of range",
 "r3-O-3": "TooDee::swap checks the second row against num_cols: needs a non-square array and a second coordinate whose row lies between the two dimensions",
}
for d in sorted(glob.glob('/tmp/out3-*/*/')):
    m = re.match(r'/tmp/out3-([TSPO])/(\d)/', d)
    if not m:
        continue
    mid = 'r3-' + m.group(1) + '-' + m.group(2)
    cj = os.path.join(d, 'confirm.json')
    if not os.path.exists(cj):
        continue
    c = json.load(open(cj))
    ok = c["applied"] == 0 and c["clean_demo_debug"] == 0 and c["clean_demo_release"] == 0 and c["suite_with_patch"] == 0 and (c["demo_with_patch_debug"] != 0 or c["demo_with_patch_release"] != 0)
    if not ok:
        print("NOT CONFIRMED", mid, c); continue
    out = '/verif/seeded/' + mid
    os.makedirs(out, exist_ok=True)
    for f in ('patch.diff', 'demo.rs', 'notes.md'):
        if os.path.exists(os.path.join(d, f)):
            shutil.copy(os.path.join(d, f), os.path.join(out, f))
    meta = {
        "id": mid, "breaks_property": "C01", "round": 3, "area": AREA[m.group(1)],
        "source": "independent sub-agent given the text of C01, a scratch worktree, and the instruction to break an in-place algorithm (%s) as applied to an OWNED array inside a history" % AREA[m.group(1)],
        "needs_to_manifest": NEEDS.get(mid, "see notes.md"),
        "confirmed": {"ran": "tools/confirm_mutant.sh", "result": c},
        "demo_fails_in": [p for p, k in (("debug", "demo_with_patch_debug"), ("release", "demo_with_patch_release")) if c[k] != 0],
        "checks_run": "tools/eval_mutants.sh: patch applied to /repo, every ./check <P> quick, patch reverted",
    }
    json.dump(meta, open(os.path.join(out, 'meta.json'), 'w'), indent=1)
    print("imported", mid)
