#!/usr/bin/env python3
"""Import confirmed round-5 sub-agent mutants from /tmp/out5-<PROP>/<n>/ into /verif/seeded/r5-<PROP>-<n>/."""
import json, os, re, shutil, glob
NEEDS = {
 "r5-C01-1": "insert_col: set_len(new_len) moved before the exhaustion debug_assert: needs a debug build and an iterator that yields more than len() (a C11-type fault)",
 "r5-C01-2": "insert_row refactored into open_gap(); the in-place branch lost the set_len(start) truncation: needs spare capacity >= one row left by an earlier operation, an index that is not the end, and an iterator that panics / runs short",
 "r5-C01-3": "DrainCol::drop: two cooperating edits (outer exhaust loop removed; DropGuard writes the dimensions back first): needs a drain dropped while it still holds an element whose Drop panics",
 "r5-C05-1": "insert_row extend() fast path for the empty array trusts the advertised length (debug_assert only): needs a release build, an empty array, a short-yielding iterator, then a later remove_col",
 "r5-C05-2": "DrainCol::drop drops the remaining cells in place starting at row num_rows - remaining: needs >= 1 element taken from the back and a non-empty drain dropped (back-taken cells dropped twice, front cells never)",
 "r5-C05-3": "clear() statement order: needs an element Drop that panics during clear(), caught, array used again",
 "r5-C06-1": "insert_row picks copy_nonoverlapping when tail <= num_cols (rows compared with columns): needs a debug build, >= 2 rows after the index and an array at least that wide",
 "r5-C06-2": "insert_col reserves only the missing capacity (misreading Vec::reserve): needs num_rows/2 <= spare capacity < num_rows, i.e. capacity left by earlier operations",
 "r5-C06-3": "insert_row sets the Vec length after every written element: needs an iterator that panics after delivering >= 1 item; the damage shows at the validity check or only through a later push_row",
 "r5-C07-1": "remove_row fast path through spare capacity uses copy_nonoverlapping on overlapping ranges: needs >= one row of spare capacity from earlier history, an index that is not the last, a debug build (or Miri)",
 "r5-C07-2": "DrainCol keeps a remaining counter that next_back() forgets to decrement: needs >= 1 element taken from the back, then len() / size_hint()",
 "r5-C07-3": "DrainCol compaction copies new_cols for every row including the last: needs an exact-capacity buffer and a column index beyond num_rows + spare (reads and writes past the allocation; the cells come out right)",
 "r5-C08-1": "clear() statement order: needs an element Drop that panics during clear(), caught, then rows() on the array",
 "r5-C08-2": "Rows/RowsMut nth / nth_back use checked_mul(..)? and return None without exhausting: needs n > usize::MAX / row pitch (pitch >= 2) and one further call",
 "r5-C08-3": "calculate_view_dimensions zeroes the dimensions after computing the slice length: needs a zero-width window spanning >= 2 rows",
 "r5-C10-1": "FlattenExact::nth uses n % num_cols as the offset in both branches: needs the back consumed first (partial back row), then a front nth overshooting the rows left by more than one row",
 "r5-C10-2": "FlattenExact nth / nth_back gain debug_assert!(n < num_cols) on the fall-through path: needs a debug build, the opposite end in progress and an overshooting jump",
 "r5-C10-3": "FlattenExact::rfold rewritten with the three segments in forward order: needs a partly consumed front or back row and an order-sensitive rfold / rev().fold",
 "r5-C11-1": "insert_row shadows the iterator with iter.fuse() inside the unsafe block (dropped after set_len, before the dimensions are committed): needs a release build and a panic in the iterator's own Drop (or in the Drop of a surplus element)",
 "r5-C11-2": "DrainCol DropGuard drops remaining cells in place from row num_rows - len: needs >= 3 rows, >= 1 next_back(), then a drop in which a remaining element's destructor panics",
 "r5-C11-3": "insert_col exhaustion debug_assert moved after the unsafe block: needs a debug build and a too-small len() or a panic in the extra next_back()",
 "r5-C12-1": "remove_col only truncates the Vec under cfg!(debug_assertions): needs a release build and a leaked DrainCol",
 "r5-C12-2": "DrainCol empties the array lazily in next() but not in next_back(): needs items taken from the back only, then a leak",
 "r5-C12-3": "two cooperating edits: clear() returns early on an empty Vec, remove_col resets the dimensions through clear() after set_len(0): needs any leaked DrainCol",
}
for d in sorted(glob.glob('/tmp/out5-C*/*/')):
    m = re.match(r'/tmp/out5-(C\d+)/(\d)/', d)
    if not m:
        continue
    mid = 'r5-' + m.group(1) + '-' + m.group(2)
    cj = os.path.join(d, 'confirm.json')
    if not os.path.exists(cj):
        print("no confirm.json", mid); continue
    c = json.load(open(cj))
    ok = c["applied"] == 0 and c["clean_demo_debug"] == 0 and c["clean_demo_release"] == 0 and c["suite_with_patch"] == 0 and (c["demo_with_patch_debug"] != 0 or c["demo_with_patch_release"] != 0)
    if not ok:
        print("NOT CONFIRMED", mid, c); continue
    out = '/verif/seeded/' + mid
    os.makedirs(out, exist_ok=True)
    for f in ('patch.diff', 'demo.rs', 'notes.md'):
        if os.path.exists(os.path.join(d, f)):
            shutil.copy(os.path.join(d, f), os.path.join(out, f))
    meta = {
        "id": mid, "breaks_property": m.group(1), "round": 5,
        "source": "independent sub-agent given only the property text, a scratch worktree, a list of the kinds of change already tried, and the instruction to make the effect depend on an interaction (cooperating edits, state left by an earlier operation, debug vs release, which end is consumed)",
        "needs_to_manifest": NEEDS.get(mid, "see notes.md"),
        "confirmed": {"ran": "tools/confirm_mutant.sh", "result": c},
        "demo_fails_in": [p for p, k in (("debug", "demo_with_patch_debug"), ("release", "demo_with_patch_release")) if c[k] != 0],
        "checks_run": "tools/eval_mutants.sh: patch applied to /repo, every ./check <P> quick, patch reverted",
    }
    json.dump(meta, open(os.path.join(out, 'meta.json'), 'w'), indent=1)
    print("imported", mid)
