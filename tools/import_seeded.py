#!/usr/bin/env python3
"""Import confirmed sub-agent mutants from /tmp/out-<PROP>/<n>/ into /verif/seeded/<PROP>-<n>/
(patch.diff, demo.rs, notes.md, meta.json). Detection results are read from the eval logs."""
import json, os, re, shutil, sys, glob
NEEDS = {
 "C01-1": "clear() zeroes the dimensions after Vec::clear: needs an element Drop that panics during clear(), caught, array inspected afterwards (a C11-type fault; C01 itself holds without faults)",
 "C01-2": "Col/ColMut::size_hint wrong when stride is 1: needs an owned single-column array (Nx1), built directly or reached by removing columns",
 "C01-3": "insert_col length check only a debug_assert: needs a release build and a wrong-length column on a non-empty array",
 "C05-1": "clear() statement order: needs an element Drop that panics during clear(), caught, then the array is read (dropped elements reachable)",
 "C05-2": "insert_col loop rewritten with pointer comparison: needs a zero-sized element type, >= 2 rows, release build",
 "C05-3": "remove_col no longer sets the Vec length to 0: needs a DrainCol that yielded >= 1 element and is then leaked (mem::forget), then the array dropped",
 "C06-1": "insert_col index check only a debug_assert: needs a release build and index >= num_cols+1 (heap corruption instead of a panic)",
 "C06-2": "insert_row panic path resets num_cols only when the array was empty: needs insert_row(0, ..) on a non-empty array with an iterator that panics or runs short",
 "C06-3": "insert_row index assertion replaced by start <= len: needs the empty array, an empty supplied row and index >= 1",
 "C07-1": "remove_col accepts index == num_cols: needs exactly that index (late overflow panic in debug, SIGSEGV in release)",
 "C07-2": "remove_row computes the drain range after decrementing: needs removal of the last remaining row",
 "C07-3": "Col::size_hint = len/denom + 1: needs the DrainCol exhausted (reports 1) or a single-column array",
 "C08-1": "RowsMut::nth uses wrapping_mul: needs n with n*stride wrapping below the remaining length (e.g. usize::MAX/stride + 1); usize::MAX itself still behaves",
 "C08-2": "calculate_view_dimensions zeroes the dimensions after computing the slice: needs a zero-width window spanning >= 2 rows",
 "C08-3": "Rows::nth_back returns None without exhausting: needs nth_back(n >= remaining) followed by any further call on the same iterator",
 "C09-1": "Col::size_hint loses the stride-1 case: needs a single-column array (or view of one) and the shared col()",
 "C09-2": "ColMut::nth_back multiplies unchecked: needs stride >= 2 and n >= usize::MAX/stride + 1 (panic in debug, wrong cell in release)",
 "C09-3": "view col() asserts col < stride instead of < num_cols: needs a proper sub-window and an out-of-range column that is still < stride",
 "C10-1": "FlattenExact::nth keeps the partly consumed front row: needs a partly consumed front row and then nth(n) jumping past it",
 "C10-2": "FlattenExact::rfold chain order mirrored: needs rfold/rev-fold after a next/nth or next_back/nth_back that stopped inside a row",
 "C10-3": "RowsMut::nth_back multiplies by cols instead of cols+skip: needs cells_mut/rows_mut on a strided mutable view with >= 2 rows and nth_back skipping a whole row",
 "C11-1": "insert_row panic path resets num_cols only when the array was empty: needs insert_row(0, ..) on a non-empty array with a panicking / short iterator",
 "C11-2": "insert_col debug_assert moved after set_len but before the dimensions are committed: needs a debug build and an iterator whose len() is too small (or whose extra next() panics)",
 "C11-3": "clear() statement order: needs an element Drop that panics during clear()",
 "C12-1": "remove_row drains in place again: needs a leaked DrainRow from remove_row(i) with i < num_rows-1",
 "C12-2": "remove_col no longer zeroes len/dimensions: needs >= 1 element taken from the DrainCol, then mem::forget (double drop)",
 "C12-3": "remove_col forgets to zero num_cols: needs any leaked DrainCol (zero-iff-zero rule broken)",
 "C18-1": "insert_row panic path leaves (N,0): needs insert_row(0,..) with a panicking iterator, caught, then serialise + deserialise (rejected)",
 "C18-2": "calculate_view_dimensions forgets the zero-height case: needs a zero-height, non-zero-width view, serialised and deserialised",
 "C18-3": "data field skipped when empty on serialisation: needs an empty owned array",
 "C19-1": "one-sided zero-dimension guard: needs num_cols == 0, num_rows >= 1, data [] (panic in from_vec)",
 "C19-2": "data Vec pre-allocated from unvalidated dimensions: needs both dimensions before data and a huge non-overflowing product (capacity overflow panic)",
 "C19-3": "empty-array fast path ahead of the length check: needs both dimensions zero with non-empty data (silently accepted)",
}
def results():
    res = {}
    for f in sorted(glob.glob('/tmp/mutant-results*.txt')):
        cur = None
        for l in open(f):
            m = re.match(r'=== /tmp/out-(C\d+)/(\d)', l)
            if m:
                cur = m.group(1) + '-' + m.group(2); res[cur] = {}; continue
            m = re.match(r'(C\d+) exit=(\d)', l)
            if m and cur:
                res[cur][m.group(1)] = int(m.group(2))
    return res
R = results()
for d in sorted(glob.glob('/tmp/out-C*/*/')):
    m = re.match(r'/tmp/out-(C\d+)/(\d)/', d)
    mid = m.group(1) + '-' + m.group(2)
    cj = os.path.join(d, 'confirm.json')
    if not os.path.exists(cj):
        continue
    c = json.load(open(cj))
    ok = c["applied"] == 0 and c["clean_demo_debug"] == 0 and c["clean_demo_release"] == 0 and c["suite_with_patch"] == 0 and (c["demo_with_patch_debug"] != 0 or c["demo_with_patch_release"] != 0)
    if not ok:
        print("NOT CONFIRMED", mid, c); continue
    out = '/verif/seeded/' + mid
    os.makedirs(out, exist_ok=True)
    for f in ('patch.diff', 'demo.rs', 'notes.md'):
        if os.path.exists(os.path.join(d, f)):
            shutil.copy(os.path.join(d, f), os.path.join(out, f))
    det = R.get(mid, {})
    meta = {
        "id": mid, "breaks_property": m.group(1), "source": "independent sub-agent given only the property text and a scratch worktree",
        "needs_to_manifest": NEEDS.get(mid, "see notes.md"),
        "confirmed": {"ran": "tools/confirm_mutant.sh (scratch worktree of /repo HEAD): demo on clean tree debug+release, patch applies, cargo test --lib and --doc with patch, demo with patch debug+release", "result": c},
        "demo_fails_in": [p for p, k in (("debug", "demo_with_patch_debug"), ("release", "demo_with_patch_release")) if c[k] != 0],
        "checks_run": "tools/eval_mutants.sh: patch applied to /repo, every ./check <P> quick, patch reverted",
        "quick_check_exit_codes": det,
        "caught_by": sorted(p for p, e in det.items() if e == 1),
    }
    json.dump(meta, open(os.path.join(out, 'meta.json'), 'w'), indent=1)
    print(mid, "caught_by", meta["caught_by"])
