#!/bin/bash
# confirm_mutant.sh <dir with patch.diff + demo.rs> : in a scratch worktree of /repo HEAD verify that
#  (a) the demo passes on the clean tree, (b) the patch applies, the full suite still passes,
#  (c) the demo fails with the patch (debug or release). Prints a one-line JSON verdict.
set -u
D=$(readlink -f "$1"); WT=/tmp/wt-confirm-$$
export CARGO_NET_OFFLINE=true CARGO_TARGET_DIR=/tmp/confirm-target
git -C /repo worktree add -q --detach $WT HEAD || exit 2
cd $WT
cp $D/demo.rs tests_demo_tmp.rs; mkdir -p tests; mv tests_demo_tmp.rs tests/demo.rs
clean_dbg=$(cargo test --offline --test demo >/dev/null 2>&1; echo $?)
clean_rel=$(cargo test --offline --release --test demo >/dev/null 2>&1; echo $?)
git apply --whitespace=nowarn $D/patch.diff; applied=$?
suite=$( (cargo test --offline --lib && cargo test --offline --doc) >/dev/null 2>&1; echo $?)
mut_dbg=$(timeout 300 cargo test --offline --test demo >/dev/null 2>&1; echo $?)
mut_rel=$(timeout 300 cargo test --offline --release --test demo >/dev/null 2>&1; echo $?)
cd /; git -C /repo worktree remove --force $WT
echo "{\"applied\":$applied,\"clean_demo_debug\":$clean_dbg,\"clean_demo_release\":$clean_rel,\"suite_with_patch\":$suite,\"demo_with_patch_debug\":$mut_dbg,\"demo_with_patch_release\":$mut_rel}"
