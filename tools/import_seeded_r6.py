#!/usr/bin/env python3
"""Import confirmed round-6 sub-agent mutants from /tmp/out6-<K>/<n>/ into /verif/seeded/r6-<K>-<n>/."""
import json, os, re, shutil, glob
NEEDS = {
 "r6-C09-1": "Col/ColMut indexing rewritten with last = len() - 1: needs a release build and [i] on a column iterator that was fully consumed earlier (the subtraction wraps and every index is accepted)",
 "r6-C09-2": "nested views spanning every column of their parent get stride = num_cols: needs two view calls in a row, an outer window narrower than its array and an inner window covering all its columns with >= 2 rows",
 "r6-C09-3": "ColMut::nth_back computes len - adj before the range check: needs a debug build and nth_back(n) with n at or beyond the remaining length",
 "r6-C18-1": "insert_row: set_len before the exhaustion debug_assert: needs a debug build and an iterator with a surplus element, caught, then serialise + deserialise (a C11-type fault)",
 "r6-C18-2": "remove_row(0) drains the front range without rotating: needs remove_row(0) on >= 2 rows and the Drain leaked (a C12-type fault), then serialise + deserialise",
 "r6-C18-3": "two cooperating edits (clear() returns early on an empty Vec; remove_col / insert_col reset the dimensions through clear()): needs a leaked DrainCol or an insert_col iterator that panics",
 "r6-C19-1": "data Vec pre-sized from unvalidated dimensions: needs both dimensions before data and a huge non-overflowing product",
 "r6-C19-2": "zero-dimension check only when both dimensions precede data, construction through a debug_assert-only twin of from_vec: needs data first (the order Serialize emits), exactly one zero dimension, empty data; release accepts a 3x0 array",
 "r6-C19-3": "length-mismatch error message computes product - data.len(): needs a debug build and data longer than the product",
 "r6-W1-1": "sort_by_col calls sort_unstable_by: needs > 32 rows with ties and a second column telling tied rows apart (written against C01)",
 "r6-W1-2": "TooDeeViewMut::new keeps the whole slice: needs a mutable view over a slice longer than cols*rows (written against C08 / C10)",
 "r6-W1-3": "insert_row: set_len before the exhaustion debug_assert: needs a debug build and an iterator with a surplus element (written against C11)",
 "r6-W1-4": "insert_col reserves rev_iter.len() (a second len() call): needs an iterator whose len() changes between two calls and an array with no spare capacity (written against C06 / C01)",
 "r6-W2-1": "insert_col calls len() twice and trusts the second answer: needs a non-empty array and an iterator whose len() is right the first time and different later (written against C01 / C11)",
 "r6-W2-2": "DrainCol nth / nth_back overrides that skip without dropping: needs an owning element type and nth(k>0) / skip / step_by on the drain (written against C05)",
 "r6-W2-3": "hand-written clone_from copies the dimensions before cloning the Vec: needs clone_from into a smaller or empty array and a Clone that panics (written against C11)",
 "r6-W2-4": "TooDeeViewMut::view uses num_cols as the stride of the sub-view: needs a shared sub-view of a mutable view narrower than its parent, >= 2 rows (written against C08)",
}
TARGET = {"r6-W1-1": "C01", "r6-W1-2": "C08", "r6-W1-3": "C11", "r6-W1-4": "C06", "r6-W2-1": "C11", "r6-W2-2": "C05", "r6-W2-3": "C11", "r6-W2-4": "C08"}
for d in sorted(glob.glob('/tmp/out6-*/*/')):
    m = re.match(r'/tmp/out6-(C\d+|W\d)/(\d)/', d)
    if not m:
        continue
    mid = 'r6-' + m.group(1) + '-' + m.group(2)
    cj = os.path.join(d, 'confirm.json')
    if not os.path.exists(cj):
        print("no confirm.json", mid); continue
    c = json.load(open(cj))
    ok = c["applied"] == 0 and c["clean_demo_debug"] == 0 and c["clean_demo_release"] == 0 and c["suite_with_patch"] == 0 and (c["demo_with_patch_debug"] != 0 or c["demo_with_patch_release"] != 0)
    if not ok:
        print("NOT CONFIRMED", mid, c); continue
    out = '/verif/seeded/' + mid
    os.makedirs(out, exist_ok=True)
    for f in ('patch.diff', 'demo.rs', 'notes.md'):
        if os.path.exists(os.path.join(d, f)):
            shutil.copy(os.path.join(d, f), os.path.join(out, f))
    wild = m.group(1).startswith('W')
    src = ("independent sub-agent given the texts of all eleven claimed properties and free choice of what to break and where" if wild
           else "independent sub-agent given only the property text, a scratch worktree, a list of the kinds of change already tried, and the instruction to make the effect depend on an interaction")
    if m.group(1) == 'W1':
        src += " (this agent reported that it had read the session's auto-memory note about the harness before starting, so it knew the harness's broad shape; it did not open /verif or /repo)"
    meta = {
        "id": mid, "breaks_property": TARGET.get(mid, m.group(1)), "round": 6, "source": src,
        "needs_to_manifest": NEEDS.get(mid, "see notes.md"),
        "confirmed": {"ran": "tools/confirm_mutant.sh", "result": c},
        "demo_fails_in": [p for p, k in (("debug", "demo_with_patch_debug"), ("release", "demo_with_patch_release")) if c[k] != 0],
        "checks_run": "tools/eval_mutants.sh: patch applied to /repo, every ./check <P> quick, patch reverted",
    }
    json.dump(meta, open(os.path.join(out, 'meta.json'), 'w'), indent=1)
    print("imported", mid)
