#!/bin/bash
# eval_benign.sh <scratch worktree> <dir>... : for each dir holding patch.diff (a behaviour-preserving change):
# does it apply, does the crate's suite pass with it, and does any quick check raise an alarm (it must not).
WT=$1; shift
ALL="C01 C05 C06 C07 C08 C09 C10 C11 C12 C18 C19"
export CARGO_NET_OFFLINE=true
for d in "$@"; do
  [ -f $d/patch.diff ] || continue
  git -C $WT checkout -q -- . ; git -C $WT apply --whitespace=nowarn $d/patch.diff || { echo "$d does-not-apply"; continue; }
  suite=$( (cd $WT && CARGO_TARGET_DIR=/tmp/own-target cargo test --offline --lib && CARGO_TARGET_DIR=/tmp/own-target cargo test --offline --doc) >/dev/null 2>&1; echo $?)
  git -C $WT checkout -q -- .
  line="$d suite=$suite"
  if [ -n "$(git -C /repo status --porcelain)" ]; then echo "/repo not clean"; exit 2; fi
  git -C /repo apply --whitespace=nowarn $d/patch.diff
  for p in $ALL; do
    (cd /verif && ./check $p quick > $d/check-$p.log 2>&1); line="$line $p=$?"
  done
  git -C /repo checkout -- .
  echo "$line"
done
