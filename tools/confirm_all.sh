#!/bin/bash
# confirm_all.sh <PROP>... : confirm every /tmp/out-<PROP>/<n> and write verdicts to /tmp/out-<PROP>/<n>/confirm.json
for p in "$@"; do for d in /tmp/out${R2:+2}-$p/*/; do
  [ -f $d/patch.diff ] || continue
  [ -f $d/confirm.json ] && continue
  /verif/tools/confirm_mutant.sh $d > $d/confirm.json 2>/dev/null
  echo "$d $(cat $d/confirm.json)"
done; done
