#!/usr/bin/env python3
"""Generate the hand-written sensitivity mutants of DESIGN.md section 4 as patch files under
/verif/mutants/<name>.diff, using a scratch worktree (argument 1). Each mutant is one textual
replacement in the pinned sources (CRLF preserved)."""
import subprocess, sys, os
WT = sys.argv[1]
OUT = '/verif/mutants'
M = [
 # name, file, old, new, breaks, benign?
 ("C01-a-remove_row-keeps-num_cols", "src/toodee.rs",
  "        self.num_rows -= 1;\n        if self.num_rows == 0 {\n            self.num_cols = 0;\n        }\n        drain\n",
  "        self.num_rows -= 1;\n        drain\n", "C01"),
 ("C01-b-insert_row-commits-unconditionally", "src/toodee.rs",
  "        if num_cols > 0 {\n            self.num_cols = num_cols;\n            self.num_rows = num_rows + 1;\n        }\n",
  "        self.num_cols = num_cols;\n        self.num_rows = num_rows + 1;\n", "C01"),
 ("C01-c-from_vec-no-zero-rule", "src/toodee.rs",
  "    pub fn from_vec(num_cols: usize, num_rows: usize, v: Vec<T>) -> TooDee<T> {\n        if num_cols == 0 || num_rows == 0 {\n            assert_eq!(num_rows, num_cols);\n        }\n",
  "    pub fn from_vec(num_cols: usize, num_rows: usize, v: Vec<T>) -> TooDee<T> {\n", "C01"),
 ("C01-d-swap_dimensions-one-field", "src/toodee.rs",
  "        mem::swap(&mut self.num_cols, &mut self.num_rows);\n",
  "        self.num_cols = self.num_rows;\n", "C01"),
 ("C01-e-clear-forgets-num_rows", "src/toodee.rs",
  "        self.num_cols = 0;\n        self.num_rows = 0;\n        self.data.clear();\n",
  "        self.num_cols = 0;\n        self.data.clear();\n", "C01"),
 ("C05-a-insert_col-block-copy-plus-one", "src/toodee.rs",
  "                    ptr::copy(read_p, write_p, num_cols);\n",
  "                    ptr::copy(read_p, write_p, num_cols + 1);\n", "C05"),
 ("C05-b-draincol-final-copy-off-by-one", "src/toodee.rs",
  "                    ptr::copy(src, dest, orig_cols - col - 1);\n",
  "                    ptr::copy(src, dest, orig_cols - col);\n", "C05"),
 ("C05-c-insert_col-set_len-plus-one", "src/toodee.rs",
  "            self.data.set_len(new_len);\n",
  "            self.data.set_len(new_len + (new_len > 0) as usize);\n", "C05"),
 ("C05-d-insert_row-ptr-before-reserve", "src/toodee.rs",
  "        self.reserve(num_cols);\n\n        let start = index * num_cols;\n        let len = self.data.len();\n",
  "        let start = index * num_cols;\n        let len = self.data.len();\n        let stale = self.data.as_mut_ptr();\n        self.reserve(num_cols);\n", "C05",
  ("            let mut p = self.data.as_mut_ptr().add(start);\n", "            let mut p = stale.add(start);\n")),
 ("C06-a-insert_col-suffix-len", "src/toodee.rs",
  "        let suffix_len = num_cols - index;\n",
  "        let suffix_len = (num_cols - index).min(num_cols.saturating_sub(1)).max((num_cols - index).min(1));\n", "C06"),
 ("C06-b-insert_col-prefix-uses-suffix", "src/toodee.rs",
  "                read_p = read_p.sub(index);\n                write_p = write_p.sub(index);\n                ptr::copy(read_p, write_p, index);\n",
  "                read_p = read_p.sub(index);\n                write_p = write_p.sub(index);\n                ptr::copy(read_p, write_p, index.min(suffix_len + 1));\n", "C06"),
 ("C06-c-insert_row-shift-count", "src/toodee.rs",
  "            ptr::copy(p, suffix, len - start);\n",
  "            ptr::copy(p, suffix, (len - start).saturating_sub((index == 1) as usize));\n", "C06"),
 ("C07-a-draincol-loop-from-zero", "src/toodee.rs",
  "                    for _ in 1..num_rows {\n",
  "                    for _ in 0..num_rows {\n", "C07"),
 ("C07-b-draincol-keeps-num_rows", "src/toodee.rs",
  "                    toodee.num_rows = if new_cols == 0 { 0 } else { num_rows };\n",
  "                    toodee.num_rows = num_rows;\n", "C07"),
 ("C08-a-rows-nth-gt", "src/iter.rs",
  "        let (start, overflow) = n.overflowing_mul(self.cols + self.skip_cols);\n        if start >= self.v.len() || overflow {\n            self.v = &[];\n",
  "        let (start, overflow) = n.overflowing_mul(self.cols + self.skip_cols);\n        if start > self.v.len() || overflow {\n            self.v = &[];\n", "C08"),
 ("C08-b-rows-nth_back-no-overflow-term", "src/iter.rs",
  "        let (adj, overflow) = n.overflowing_mul(self.cols + self.skip_cols);\n        if adj >= self.v.len() || overflow {\n            self.v = &[];\n",
  "        let (adj, _overflow) = n.overflowing_mul(self.cols + self.skip_cols);\n        if adj >= self.v.len() {\n            self.v = &[];\n", "C08"),
 ("C08-c-rowsmut-next_back-no-skip", "src/iter.rs",
  "                    self.v = fst.get_unchecked_mut(..tmp_len - self.cols - self.skip_cols);\n",
  "                    self.v = fst.get_unchecked_mut(..tmp_len - self.cols);\n", "C08"),
 ("C08-d-rows-size_hint-no-remainder", "src/iter.rs",
  "        let n = len / denom + (len % denom) / self.cols;\n        (n, Some(n))\n    }\n\n    #[inline]\n    fn count(self) -> usize {\n        self.len()\n    }\n    \n    #[inline]\n    fn nth(&mut self, n: usize) -> Option<Self::Item> {\n        \n",
  "        let n = len / denom;\n        (n, Some(n))\n    }\n\n    #[inline]\n    fn count(self) -> usize {\n        self.len()\n    }\n    \n    #[inline]\n    fn nth(&mut self, n: usize) -> Option<Self::Item> {\n        \n", "C08"),
 ("C11-a-insert_row-no-set_len", "src/toodee.rs",
  "            self.data.set_len(start);\n            // Keep the dimensions",
  "            // Keep the dimensions", "C11"),
 ("C11-b-insert_col-no-set_len", "src/toodee.rs",
  "            self.data.set_len(0);\n            // Keep the dimensions in step with the zero length",
  "            // Keep the dimensions in step with the zero length", "C11"),
 ("C11-c-draincol-no-dropguard", "src/toodee.rs",
  "            let guard = DropGuard(self);\n            drop(item);\n            mem::forget(guard);\n",
  "            drop(item);\n", "C11"),
 ("C12-a-remove_col-keeps-num_rows", "src/toodee.rs",
  "            self.num_cols = 0;\n            self.num_rows = 0;\n            DrainCol {\n",
  "            self.num_cols = 0;\n            DrainCol {\n", "C12"),
 ("C19-a-no-overflow-check", "src/serde.rs",
  "        let (product, overflow) = num_cols.overflowing_mul(num_rows);\n        if overflow {\n            return Err(de::Error::invalid_value(Unexpected::Other(\"product\"),&\"dimensions too big\"))\n        }\n",
  "        let (product, _overflow) = num_cols.overflowing_mul(num_rows);\n", "C19"),
 ("C19-b-length-off-by-one", "src/serde.rs",
  "        if product != data.len() {\n",
  "        if product != data.len() && product != data.len() + 1 {\n", "C19"),
 ("BENIGN-C19-no-duplicate-errors", "src/serde.rs",
  "                    if num_cols.is_some() {\n                        return Err(de::Error::duplicate_field(\"num_cols\"));\n                    }\n",
  "", "none (benign: duplicates are left open by C19; must stay silent)"),
 ("BENIGN-C11-insert_row-leaks-everything", "src/toodee.rs",
  "            self.data.set_len(start);\n            // Keep the dimensions in step with the truncated length, so that the array is\n            // still valid (but shorter) if `iter` panics.\n            self.num_rows = index;\n            if index == 0 {\n                self.num_cols = 0;\n            }\n",
  "            self.data.set_len(0);\n            // A different but equally valid choice of what to leak after a panic: everything.\n            self.num_rows = 0;\n            self.num_cols = 0;\n", "none (benign: a different valid leak choice; must stay silent)",
  ("            let mut p = self.data.as_mut_ptr().add(start);\n", "            let mut p = self.data.as_mut_ptr().add(start);\n            let _ = &p;\n")),
]
os.makedirs(OUT, exist_ok=True)
index = []
for m in M:
    name, f, old, new, breaks = m[:5]
    extra = m[5] if len(m) > 5 else None
    subprocess.run(["git", "-C", WT, "checkout", "--", "."], check=True)
    path = os.path.join(WT, f)
    data = open(path, 'rb').read()
    crlf = b'\r\n' in data
    text = data.decode().replace('\r\n', '\n')
    pairs = [(old, new)] + ([extra] if extra else [])
    ok = True
    for o, n in pairs:
        if text.count(o) != 1:
            print("SKIP %s: pattern found %d times" % (name, text.count(o)))
            ok = False
            break
        text = text.replace(o, n)
    if not ok:
        continue
    out = text.replace('\n', '\r\n') if crlf else text
    open(path, 'wb').write(out.encode())
    diff = subprocess.run(["git", "-C", WT, "diff"], stdout=subprocess.PIPE).stdout
    open(os.path.join(OUT, name + ".diff"), 'wb').write(diff)
    index.append((name, breaks))
subprocess.run(["git", "-C", WT, "checkout", "--", "."], check=True)
with open(os.path.join(OUT, "INDEX.txt"), "w") as fh:
    for name, breaks in index:
        fh.write("%s\tbreaks: %s\n" % (name, breaks))
print("wrote %d mutants" % len(index))
