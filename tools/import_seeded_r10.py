#!/usr/bin/env python3
"""Import confirmed round-10 sub-agent changes from /tmp/out10-<K>/<n>/ into /verif/seeded/r10-<K>-<n>/."""
import json, os, re, shutil, glob
NEEDS = {
 "r10-Y1-1": "insert_col reserves only `num_rows - spare` (misreading Vec::reserve): needs partial spare capacity (num_rows/2 <= spare < num_rows), e.g. after a remove_row, then push_col; cells are written past the allocation and len exceeds capacity",
 "r10-Y1-2": "TooDee::swap_rows swaps num_cols * align_of::<T>() bytes: needs an element type larger than its alignment (16-byte or 64-byte elements of align 8) and swap_rows or a column sort on an owned array",
 "r10-Y1-3": "sort_by_col calls sort_unstable_by: needs more than 20 rows with tied keys and a model that sorts stably",
 "r10-Y1-4": "remove_row parks the row in the spare capacity when `spare >= num_rows` (should be num_cols): needs a wide array with num_rows <= spare < num_cols; the row is written past the allocation, the array and the drain still equal the model",
 "r10-Y2-1": "From<TooDeeViewMut> for TooDeeView swaps num_cols and num_rows: needs the conversion entry point (TooDeeView::from(view_mut) / into()) on a non-square window",
 "r10-Y2-2": "Serialize for TooDeeViewMut skips the data field when the view is empty: needs an empty mutable view serialised and read back",
 "r10-Y2-3": "FlattenExact::nth_back loses the clamp on whole rows skipped: needs a partly consumed front row and nth_back(n) overshooting the remaining length with n % num_cols < cells left in the front row",
 "r10-Y2-4": "calculate_view_dimensions keeps the width of zero-height windows: needs a window with no rows but some columns, then TooDee::from(view) or serialisation of the view",
}
TARGET = {"r10-Y1-1": "C06", "r10-Y1-2": "C01", "r10-Y1-3": "C01", "r10-Y1-4": "C07", "r10-Y2-1": "C08", "r10-Y2-2": "C18", "r10-Y2-3": "C10", "r10-Y2-4": "C01"}
THEME = {"Y1": "memory layout and allocation (capacity, element size and alignment, thresholds inside std)", "Y2": "views (conversions, nested windows, empty windows, view serialisation)"}
for d in sorted(glob.glob('/tmp/out10-*/*/')):
    m = re.match(r'/tmp/out10-(Y\d)/(\d)/', d)
    if not m:
        continue
    mid = 'r10-' + m.group(1) + '-' + m.group(2)
    cj = os.path.join(d, 'confirm.json')
    if not os.path.exists(cj):
        print("no confirm.json", mid); continue
    c = json.load(open(cj))
    ok = c["applied"] == 0 and c["clean_demo_debug"] == 0 and c["clean_demo_release"] == 0 and c["suite_with_patch"] == 0 and (c["demo_with_patch_debug"] != 0 or c["demo_with_patch_release"] != 0)
    if not ok:
        print("NOT CONFIRMED", mid, c); continue
    out = '/verif/seeded/' + mid
    os.makedirs(out, exist_ok=True)
    for f in ('patch.diff', 'demo.rs', 'notes.md'):
        if os.path.exists(os.path.join(d, f)):
            shutil.copy(os.path.join(d, f), os.path.join(out, f))
    meta = {
        "id": mid, "breaks_property": TARGET[mid], "round": 10,
        "source": "independent sub-agent (memory notes hidden) given the texts of all eleven claimed properties, a summary of the kinds of change already tried, the theme '%s' and free choice of what to break" % THEME[m.group(1)],
        "needs_to_manifest": NEEDS[mid],
        "confirmed": {"ran": "tools/confirm_mutant.sh", "result": c},
        "demo_fails_in": [p for p, k in (("debug", "demo_with_patch_debug"), ("release", "demo_with_patch_release")) if c[k] != 0],
        "checks_run": "tools/eval_mutants.sh: patch applied to /repo, every ./check <P> quick, patch reverted",
    }
    json.dump(meta, open(os.path.join(out, 'meta.json'), 'w'), indent=1)
    print("imported", mid)
