#!/usr/bin/env python3
"""Import confirmed round-11 sub-agent changes from /tmp/out11-<K>/<n>/ into /verif/seeded/r10-<K>-<n>/."""
import json, os, re, shutil, glob
NEEDS = {
 "r11-Z1-1": "DrainCol's DropGuard restores the array before dropping the undrained cells (statements swapped): needs an element destructor that panics while the DrainCol itself is being dropped, with undrained cells left and >= 2 rows",
 "r11-Z1-2": "remove_col's signature gives the drain a lifetime not tied to the array (`remove_col<'a>(&mut self, ..) -> DrainCol<'a, T>`): every program that compiled before behaves as before; only programs that did not compile (array used while the drain is alive) misbehave",
 "r11-Z1-3": "translate_with_wrap: `mid` hoisted out of the per-cycle loop: needs gcd(num_rows, row_mid) > 1 (so >= 4 rows) and a non-zero column shift",
 "r11-Z2-1": "view.rs: the column bounds assert moved from get_col_params to its callers as debug_assert, TooDeeViewMut::col forgotten: needs a release build and the shared col(c) of a mutable view with c >= num_cols",
 "r11-Z2-2": "FlattenExact::nth / nth_back gain a wrong debug_assert!(n < num_cols): needs a debug build and nth(n) / nth_back(n) overshooting the end by a whole row or more",
 "r11-Z2-3": "remove_row checks `index * num_cols < data.len()` instead of `index < num_rows`: needs a release build and an index whose product with num_cols wraps back into the data (2 columns: 2^63; 3 columns: usize::MAX/3 + 1)",
 "r11-Z2-4": "remove_col: `v.set_len(0)` wrapped in `if cfg!(debug_assertions)`: needs a release build and a leaked DrainCol",
}
TARGET = {"r11-Z1-1": "C11", "r11-Z1-2": "C01", "r11-Z1-3": "C01", "r11-Z2-1": "C09", "r11-Z2-2": "C10", "r11-Z2-3": "C07", "r11-Z2-4": "C12"}
THEME = {"Z1": "state carried between operations on an owned array (capacity, parked dimensions, normalisation to (0,0), conversions right after structural edits)", "Z2": "two cooperating edits in different functions or files, and build-profile differences (debug_assert vs assert, wrapping vs checked arithmetic, cfg(debug_assertions))"}
for d in sorted(glob.glob('/tmp/out11-*/*/')):
    m = re.match(r'/tmp/out11-(Z\d)/(\d)/', d)
    if not m:
        continue
    mid = 'r11-' + m.group(1) + '-' + m.group(2)
    cj = os.path.join(d, 'confirm.json')
    if not os.path.exists(cj):
        print("no confirm.json", mid); continue
    c = json.load(open(cj))
    ok = c["applied"] == 0 and c["clean_demo_debug"] == 0 and c["clean_demo_release"] == 0 and c["suite_with_patch"] == 0 and (c["demo_with_patch_debug"] != 0 or c["demo_with_patch_release"] != 0)
    if not ok:
        print("NOT CONFIRMED", mid, c); continue
    out = '/verif/seeded/' + mid
    os.makedirs(out, exist_ok=True)
    for f in ('patch.diff', 'demo.rs', 'notes.md'):
        if os.path.exists(os.path.join(d, f)):
            shutil.copy(os.path.join(d, f), os.path.join(out, f))
    meta = {
        "id": mid, "breaks_property": TARGET[mid], "round": 11,
        "source": "independent sub-agent (memory notes hidden) given the texts of all eleven claimed properties, a summary of the kinds of change already tried, the theme '%s' and free choice of what to break" % THEME[m.group(1)],
        "needs_to_manifest": NEEDS[mid],
        "confirmed": {"ran": "tools/confirm_mutant.sh", "result": c},
        "demo_fails_in": [p for p, k in (("debug", "demo_with_patch_debug"), ("release", "demo_with_patch_release")) if c[k] != 0],
        "checks_run": "tools/eval_mutants.sh: patch applied to /repo, every ./check <P> quick, patch reverted",
    }
    json.dump(meta, open(os.path.join(out, 'meta.json'), 'w'), indent=1)
    print("imported", mid)
