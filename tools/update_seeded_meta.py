#!/usr/bin/env python3
"""Rewrite the detection fields of /verif/seeded/*/meta.json from /tmp/mutant-results-final.txt and print
the markdown tables for DESIGN.md (seeded changes and hand-written mutants)."""
import json, os, re, glob
PROPS = ["C01","C05","C06","C07","C08","C09","C10","C11","C12","C18","C19"]
res = {}
cur = None
import sys
RES = sys.argv[1] if len(sys.argv) > 1 else '/tmp/mutant-results-final.txt'
for l in open(RES):
    m = re.match(r'=== /verif/seeded/((?:r[23]-)?[CTSPO]\d*-\d)', l)
    if m:
        cur = m.group(1); res[cur] = {}; continue
    m = re.match(r'(C\d+) exit=(\d)', l)
    if m and cur:
        res[cur][m.group(1)] = int(m.group(2))
print("| seeded change | written to break | needs | quick checks that report it |")
print("|---|---|---|---|")
for d in sorted(glob.glob('/verif/seeded/*/')):
    mid = os.path.basename(d.rstrip('/'))
    mp = os.path.join(d, 'meta.json')
    meta = json.load(open(mp))
    det = res.get(mid, {})
    meta["quick_check_exit_codes"] = det
    meta["caught_by"] = sorted(p for p, e in det.items() if e == 1)
    meta["harness_errors"] = sorted(p for p, e in det.items() if e == 2)
    json.dump(meta, open(mp, 'w'), indent=1)
    needs = meta["needs_to_manifest"]
    print("| %s | %s | %s | %s%s |" % (mid, meta["breaks_property"], needs, ", ".join(meta["caught_by"]) or "none", (" (exit 2: " + ", ".join(meta["harness_errors"]) + ")") if meta["harness_errors"] else ""))
print()
print("| hand-written mutant | crate's own suite | quick checks that report it |")
print("|---|---|---|")
if os.path.exists('/tmp/own-results-final.txt'):
    for l in open('/tmp/own-results-final.txt'):
        parts = l.split()
        if len(parts) < 3 or not parts[1].startswith('suite='):
            continue
        name = parts[0]
        suite = "passes" if parts[1] == "suite=0" else "fails"
        codes = dict(p.split('=') for p in parts[2:])
        caught = [p for p in PROPS if codes.get(p) == '1']
        err = [p for p in PROPS if codes.get(p) == '2']
        print("| %s | %s | %s%s |" % (name, suite, ", ".join(caught) or "none", (" (exit 2: " + ", ".join(err) + ")") if err else ""))
