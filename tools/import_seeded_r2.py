#!/usr/bin/env python3
"""Import confirmed round-2 sub-agent mutants from /tmp/out2-<PROP>/<n>/ into /verif/seeded/r2-<PROP>-<n>/."""
import json, os, re, shutil, glob
NEEDS = {
 "r2-C05-1": "DrainCol gains an nth() override that skips without dropping: needs a column drain consumed with nth(n>=1) / skip / step_by on an owning element type (the skipped elements are never dropped)",
 "r2-C05-2": "insert_row fill loop no longer bounded by num_cols: needs a release build, an iterator that yields more than len(), and an insertion index below num_rows (surplus elements overwrite the shifted tail, whose owners are never dropped)",
 "r2-C05-3": "insert_col first-column fast path trusts len() for the dimensions: needs an empty array, an iterator that yields fewer items than len(), and a later access to a row past the delivered count (stale elements in spare capacity are dropped again)",
 "r2-C06-1": "insert_row append fast path built on Vec::extend: needs insertion at the end and an iterator that fails after yielding >= 1 element (panic mid-row or a wrong len())",
 "r2-C06-2": "insert_col writes num_rows of an empty array before reserve(): needs an empty array and a claimed length that makes reserve() panic (capacity overflow)",
 "r2-C06-3": "reserve() skipped for zero-sized cells: needs zero-sized cells, cols*rows within one line of usize::MAX and a release build (the new length wraps)",
 "r2-C01-1": "insert_row append fast path built on Vec::extend: needs an appended row (push_row / insert_row(num_rows)) and an iterator that fails only after yielding >= 1 item (panic in a later next(), or over-reported len) - a C11-type fault",
 "r2-C01-2": "hand-written Clone with an allocation-reusing clone_from whose same-length fast path forgets the dimensions: needs clone_from (not clone) between arrays with the same number of cells but different shapes",
 "r2-C01-3": "From<TooDeeViewMut> destructures size() as (rows, cols): needs TooDee::from(view_mut) of a non-square mutable view",
 "r2-C07-1": "remove_row fast path for long rows uses copy_nonoverlapping on overlapping ranges: needs rows > 256 bytes, spare capacity >= one row, >= 2 rows after the removed one; debug build (precondition abort) or Miri",
 "r2-C07-2": "DrainCol compaction special case for two-column arrays starts at row 1: needs exactly 2 columns and remove_col(0)",
 "r2-C07-3": "DrainCol gains nth/nth_back overrides that skip without dropping: needs an owning element type and nth(n>=1)/nth_back(n>=1) on the drain (elements leak; values and array stay right)",
 "r2-C08-1": "Rows/RowsMut nth/nth_back exhaustion test rewritten as start + cols > len (unchecked sum): needs n == usize::MAX / stride exactly and cols > usize::MAX % stride",
 "r2-C08-2": "Rows/RowsMut size_hint rewritten as (len + denom - 1) / denom: needs zero-sized cells and a shape with len + stride - 1 > usize::MAX, queried while nearly unconsumed",
 "r2-C08-3": "TooDeeView::new / TooDeeViewMut::new keep the whole slice instead of trimming it: needs a view built with ::new over a slice longer than cols*rows",
 "r2-C09-1": "Col::nth guards with n >= slice length and then multiplies unchecked: needs zero-sized cells, stride >= 2 and 2^64/stride <= n < slice length",
 "r2-C09-2": "ColMut::nth_back handles overflow with `?` and forgets to exhaust: needs stride >= 2, n > usize::MAX/stride, and one more call on the same iterator",
 "r2-C09-3": "TooDeeViewMut::col (the shared column of a mutable view) uses num_cols-1 as skip: needs col() on a TooDeeViewMut narrower than its parent with >= 2 rows",
 "r2-C10-1": "TooDeeViewMut::new keeps the whole slice: needs a mutable view built with ::new over a slice longer than cols*rows",
 "r2-C10-2": "FlattenExact::nth_back loses the clamp on the rows to skip: needs a partly consumed front row, then nth_back(n) at least a full row past the end with n % num_cols smaller than what is left of the front row",
 "r2-C10-3": "Rows/RowsMut size_hint rewritten as (len + denom - 1) / denom: needs zero-sized cells and more than ~usize::MAX/2 cells",
 "r2-C11-1": "hand-written clone_from that clones the Vec before copying the dimensions: needs clone_from with a source that fits the capacity, a different element count, and a Clone that panics",
 "r2-C11-2": "insert_col exhaustion debug_assert moved after set_len but before the dimensions are restored: needs a debug build and an iterator whose len() is too small / whose extra next() panics",
 "r2-C11-3": "insert_row fast path for zero-sized elements built on Vec::extend: needs a zero-sized element type and an iterator that panics at the k-th next() with 1 <= k < num_cols or over-reports its length",
 "r2-C12-1": "remove_row skips the rotation for rows wider than 256 bytes: needs a leaked DrainRow, a removed row that is not the last, and row and tail both > 256 bytes (>= 17 16-byte elements)",
 "r2-C12-2": "DrainCol empties the array lazily in next() but not in next_back(): needs items taken only from the back, no next() at all, then a leak (double drop)",
 "r2-C12-3": "remove_col only empties the array when mem::needs_drop::<T>(): needs an element type without drop glue, >= 1 item taken, then a leak (duplicate owner, no destructor involved)",
 "r2-C18-1": "deserialiser pre-sizes the data buffer and compares against capacity(): needs a serialised view (dimensions before data), a text transport and > 16384 u32 cells",
 "r2-C18-2": "view serialiser walks v.chunks(stride): needs an empty view of an array with zero columns (stride 0 panics)",
 "r2-C18-3": "view serialiser's length hint drops the unpadded last row: needs a one-row view narrower than its parent and a text serialiser (invalid JSON is emitted)",
 "r2-C19-1": "fields deserialised as Option: a null leaves the duplicate marker unset: needs a null dimension followed by a second, usable occurrence of the same field",
 "r2-C19-2": "data buffer allocated from unvalidated dimensions: needs both dimensions before data and a huge non-overflowing product (capacity overflow panic / allocation failure)",
 "r2-C19-3": "data read in place without clearing: needs a duplicated data field whose two lengths add up to num_cols*num_rows",
}
for d in sorted(glob.glob('/tmp/out2-C*/*/')):
    m = re.match(r'/tmp/out2-(C\d+)/(\d)/', d)
    if not m:
        continue
    mid = 'r2-' + m.group(1) + '-' + m.group(2)
    cj = os.path.join(d, 'confirm.json')
    if not os.path.exists(cj):
        print("no confirm.json", mid); continue
    c = json.load(open(cj))
    ok = c["applied"] == 0 and c["clean_demo_debug"] == 0 and c["clean_demo_release"] == 0 and c["suite_with_patch"] == 0 and (c["demo_with_patch_debug"] != 0 or c["demo_with_patch_release"] != 0)
    if not ok:
        print("NOT CONFIRMED", mid, c); continue
    out = '/verif/seeded/' + mid
    os.makedirs(out, exist_ok=True)
    for f in ('patch.diff', 'demo.rs', 'notes.md'):
        if os.path.exists(os.path.join(d, f)):
            shutil.copy(os.path.join(d, f), os.path.join(out, f))
    meta = {
        "id": mid, "breaks_property": m.group(1), "round": 2,
        "source": "independent sub-agent given only the property text, a scratch worktree, and the instruction to avoid the obvious ideas of round 1 and to require two or more coinciding conditions",
        "needs_to_manifest": NEEDS.get(mid, "see notes.md"),
        "confirmed": {"ran": "tools/confirm_mutant.sh (scratch worktree of /repo HEAD): demo on clean tree debug+release, patch applies, cargo test --lib and --doc with patch, demo with patch debug+release", "result": c},
        "demo_fails_in": [p for p, k in (("debug", "demo_with_patch_debug"), ("release", "demo_with_patch_release")) if c[k] != 0],
        "checks_run": "tools/eval_mutants.sh: patch applied to /repo, every ./check <P> quick, patch reverted",
    }
    json.dump(meta, open(os.path.join(out, 'meta.json'), 'w'), indent=1)
    print("imported", mid)
