#!/bin/bash
# eval_all.sh : re-evaluate every seeded change and every hand-written mutant with the current machinery
/verif/tools/eval_mutants.sh /verif/seeded/*/ > /tmp/mutant-results-final.txt 2>&1
/verif/tools/eval_own_mutants.sh /tmp/wt-mine > /tmp/own-results-final.txt 2>&1
