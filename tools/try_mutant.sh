#!/bin/bash
# try_mutant.sh <patch.diff> <PROP>... : apply the patch to /repo, run the quick checks, undo.
# Prints "<PROP> exit=<code>" per property. /repo must be clean before and is clean afterwards.
set -u
P=$(readlink -f "$1"); shift
if [ -n "$(git -C /repo status --porcelain)" ]; then echo "/repo not clean"; exit 2; fi
git -C /repo apply --whitespace=nowarn "$P" || { echo "patch does not apply"; exit 2; }
for prop in "$@"; do
  out=$(cd /verif && VERIF_RUNS=${VERIF_RUNS:-} ./check $prop quick 2>&1); code=$?
  echo "$prop exit=$code $(echo "$out" | grep -c '^VIOLATION') violations"
  echo "$out" | grep -A1 "^  $prop" | head -4
done
git -C /repo checkout -- . 
rm -f /repo/tests/demo.rs
