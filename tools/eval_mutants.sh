#!/bin/bash
# eval_mutants.sh <dir>... : for each dir holding patch.diff, run every quick check with the patch applied to /repo.
ALL="C01 C05 C06 C07 C08 C09 C10 C11 C12 C18 C19"
for d in "$@"; do
  [ -f $d/patch.diff ] || continue
  echo "=== $d"
  /verif/tools/try_mutant.sh $d/patch.diff $ALL 2>&1 | grep -E "exit=|^  C|^    " 
done
