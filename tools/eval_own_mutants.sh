#!/bin/bash
# eval_own_mutants.sh <scratch worktree> : for every /verif/mutants/*.diff report (a) whether the crate's
# own suite still passes with it, (b) which quick checks alarm. Output lines: "<name> suite=<0|n> <PROP>=<exit> ..."
WT=$1
ALL="C01 C05 C06 C07 C08 C09 C10 C11 C12 C18 C19"
export CARGO_NET_OFFLINE=true
for d in /verif/mutants/*.diff; do
  name=$(basename $d .diff)
  git -C $WT checkout -q -- . ; git -C $WT apply --whitespace=nowarn $d || { echo "$name does-not-apply"; continue; }
  suite=$( (cd $WT && CARGO_TARGET_DIR=/tmp/own-target cargo test --offline --lib && CARGO_TARGET_DIR=/tmp/own-target cargo test --offline --doc) >/dev/null 2>&1; echo $?)
  git -C $WT checkout -q -- .
  line="$name suite=$suite"
  if [ -n "$(git -C /repo status --porcelain)" ]; then echo "/repo not clean"; exit 2; fi
  git -C /repo apply --whitespace=nowarn $d
  for p in $ALL; do
    (cd /verif && ./check $p quick >/tmp/own-$p.log 2>&1); line="$line $p=$?"
  done
  git -C /repo checkout -- .
  echo "$line"
done
